#!/usr/bin/env python3
"""tools/seed_eval.py <agent-worktree> <n> <PROPERTY-ID> [--no-tests] [--only-own]
Confirms one seeded change independently and records which registered checks catch it.
  1. copies <agent-worktree>/seeded/<n>/{patch.diff,demo.py,notes.md} to /verif/seeded/<ID>-<n>/
  2. fresh scratch worktree of /repo HEAD, `git apply patch.diff`
  3. demo with the change (must fail) and on /repo (must pass)
  4. the repository's whole test suite inside the scratch worktree (must pass)
  5. every registered quick check against the scratch worktree (VERIF_PACKAGE_ROOT), evidence redirected
  6. writes meta.json, removes the scratch worktree
"""
import json
import os
import re
import shutil
import subprocess
import sys
import tempfile
import time

VERIF = os.path.dirname(os.path.dirname(os.path.abspath(__file__)))
ALL = [f'C{i:02d}' for i in range(1, 21)]


def sh(cmd, cwd=None, env=None, timeout=3600):
    e = dict(os.environ)
    if env:
        e.update(env)
    p = subprocess.run(cmd, shell=True, cwd=cwd, env=e, capture_output=True, text=True, timeout=timeout)
    return p.returncode, p.stdout + p.stderr


def main():
    wt, n, pid = sys.argv[1], sys.argv[2], sys.argv[3]
    no_tests = '--no-tests' in sys.argv
    only_own = '--only-own' in sys.argv
    src = os.path.join(wt, 'seeded', n)
    label = next((a.split('=', 1)[1] for a in sys.argv if a.startswith('--label=')), n)
    dst = os.path.join(VERIF, 'seeded', f'{pid}-{label}')
    os.makedirs(dst, exist_ok=True)
    for f in ('patch.diff', 'demo.py', 'notes.md'):
        if os.path.exists(os.path.join(src, f)):
            shutil.copy(os.path.join(src, f), os.path.join(dst, f))
    scratch = tempfile.mkdtemp(prefix='seedwt_')
    os.rmdir(scratch)
    meta = {'property': pid, 'seed': label, 'repo_head': sh('git -C /repo rev-parse --short HEAD')[1].strip()}
    try:
        rc, out = sh(f'git -C /repo worktree add -q --detach {scratch} HEAD')
        assert rc == 0, out
        rc, out = sh(f'git -C {scratch} apply {os.path.join(dst, "patch.diff")}')
        meta['patch_applies'] = rc == 0
        if rc != 0:
            meta['error'] = out[-500:]
            return meta
        meta['files_touched'] = sh(f'git -C {scratch} diff --stat')[1].strip().splitlines()[:-1]
        rc1, o1 = sh(f'/venv/bin/python {os.path.join(dst, "demo.py")}', env={'PYTHONPATH': scratch}, timeout=900)
        rc0, o0 = sh(f'/venv/bin/python {os.path.join(dst, "demo.py")}', env={'PYTHONPATH': '/repo'}, timeout=900)
        meta['demo_with_change_rc'] = rc1
        meta['demo_without_change_rc'] = rc0
        meta['demo_with_change_tail'] = o1.strip().splitlines()[-3:]
        if not no_tests:
            t0 = time.time()
            rc, out = sh('/venv/bin/python -m pytest -q -p no:cacheprovider -n 12 --timeout=900 tests', cwd=scratch,
                         timeout=7200)
            summ = [l for l in out.splitlines() if re.search(r'\d+ (passed|failed|error)', l)]
            meta['suite_with_change'] = {'rc': rc, 'summary': (summ[-1] if summ else out.strip().splitlines()[-1])[:200],
                                         'failed': [l[:200] for l in out.splitlines() if l.startswith('FAILED')][:10],
                                         'cmd': 'pytest -q -n 12 tests (whole suite, inside the scratch worktree)',
                                         'wall_s': round(time.time() - t0)}
            failed = [l.split()[1] for l in out.splitlines() if l.startswith('FAILED') and len(l.split()) > 1]
            if failed:
                # the two export tests race on ./test_data under pytest-xdist: re-run whatever failed serially
                rc2, out2 = sh('/venv/bin/python -m pytest -q -p no:cacheprovider --timeout=900 ' +
                               ' '.join(f'"{f}"' for f in failed[:10]), cwd=scratch, timeout=3600)
                meta['suite_with_change']['failed_rerun_serially'] = {'rc': rc2, 'summary': out2.strip().splitlines()[-1][:200]}
                if rc2 == 0:
                    meta['suite_with_change']['rc'] = 0
                    meta['suite_with_change']['note'] = 'failures under xdist did not reproduce serially (shared ./test_data race)'
        caught = {}
        if only_own and os.path.exists(os.path.join(dst, 'meta.json')):
            try:
                caught = dict(json.load(open(os.path.join(dst, 'meta.json'))).get('quick_checks') or {})
            except Exception:  # noqa
                caught = {}
        outdir = tempfile.mkdtemp(prefix='seedout_')
        for cid in ([pid] if only_own else ALL):
            rc, out = sh(f'./check {cid} quick', cwd=VERIF,
                         env={'VERIF_PACKAGE_ROOT': scratch, 'VERIF_OUT': outdir, 'VERIF_SEED': '1'}, timeout=3000)
            sigs = [l.strip().split(']')[0].lstrip('[') for l in out.splitlines() if l.startswith('  [')]
            caught[cid] = {'rc': rc, 'signatures': sigs[:6]}
        shutil.rmtree(outdir, ignore_errors=True)
        meta['quick_checks'] = caught
        meta['caught_by'] = [c for c, v in caught.items() if v['rc'] == 1]
        meta['harness_errors'] = [c for c, v in caught.items() if v['rc'] not in (0, 1)]
        meta['own_check_catches'] = caught.get(pid, {}).get('rc') == 1
    finally:
        sh(f'git -C /repo worktree remove --force {scratch}')
        shutil.rmtree(scratch, ignore_errors=True)
        with open(os.path.join(dst, 'meta.json'), 'w') as fh:
            json.dump(meta, fh, indent=1)
        print(pid, label, 'demo(with,without)=', meta.get('demo_with_change_rc'), meta.get('demo_without_change_rc'),
              'suite=', meta.get('suite_with_change', {}).get('summary'), 'caught_by=', meta.get('caught_by'),
              'errors=', meta.get('harness_errors'))
    return meta


if __name__ == '__main__':
    main()
