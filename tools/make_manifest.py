#!/usr/bin/env python3
"""Regenerates MANIFEST.json from the table below (kept in one place so it is always valid)."""
import json
import os

HERE = os.path.dirname(os.path.dirname(os.path.abspath(__file__)))

CHECKS = {
    # id: (technique, level text, level note, design ref)
    'C05': ('Hypothesis-generated values x exhaustive unit pairs vs exact rational SI table; '
            'metamorphic comparison oracle (far / same-up-to-rounding, both operand orders); thorough tier adds a '
            'coverage-guided atheris campaign on the comparison strategy (same oracle)',
            'No counterexample among generated conversions (all 607 ordered unit pairs per generated value) and '
            'generated comparison pairs; exploration, not proof. Right level: the property quantifies over a '
            'finite unit table (covered completely) times a continuous value range (sampled).',
            'Trusts the SI definitions typed into vp/oracle/units_si.py and IEEE double arithmetic; '
            'conversion tolerance 16 ulp; comparison pairs nearer than 1e-9 relative that are not conversion '
            'images are unconstrained.',
            'DESIGN.md §4 C05'),
    'C06': ('exhaustive enumeration of operator cells (kinds x units x 4 operators) with Hypothesis-drawn '
            'magnitudes vs an independent dimension table + SI table; inverse-law metamorphic checks; pre-converted, aliased and re-used operand objects; thorough tier '
            'adds a coverage-guided atheris campaign on the random-cell strategy (same oracle)',
            'Every operator cell is evaluated for each generated magnitude tuple, so the finite part of the domain '
            '(which kinds/units/operators) is covered completely and only magnitudes are sampled; exploration.',
            'Trusts the dimension vectors / SI factors of vp/oracle/units_si.py; additive tolerance 1e-12 of the '
            'operand magnitudes, multiplicative 1e-9; two cells are recorded known findings pinned by the suite.',
            'DESIGN.md §4 C06'),
    'C08': ('Hypothesis-generated motors/speeds/duty cycles aimed at the dead-zone boundary (ulp neighbours) vs '
            'the piecewise law re-typed from the statement; anchors, continuity and sign-reversal relations',
            'No counterexample among generated (motor, speed, duty) triples, 40% of them within 4 ulp of the '
            'dead-zone boundary; exploration of a pure function with a closed-form oracle.',
            'Trusts vp/oracle/motor.py (12 lines) and the SI table; tolerance 1e-9 scaled by 1+|w/(D w0)|.',
            'DESIGN.md §4 C08'),
    'C10': ('Hypothesis-generated declaration programs (program-as-data) interpreted against a reference model '
            'of the three declaration functions; full before/after snapshots of every element',
            'No counterexample among generated call sequences; every call is judged (accept/reject prediction, '
            'resulting state, untouched bystanders); exploration over histories.',
            'Trusts vp/oracle/relations.py; pairs the statement does not specify (worm/wheel with different helix, '
            'elements whose parameters were re-expressed in place, conditions within 1e-9 of a threshold) are only '
            'checked for consistency.',
            'DESIGN.md §4 C10'),
    'C19': ('Hypothesis-generated straight-line programs over a pool of live quantities with an invariant after '
            'every step; boundary-aimed constructor arguments; thorough tier adds a coverage-guided atheris campaign on '
            'the program strategy (same oracle)',
            'No live constrained quantity violated its constraint after any step of any generated program '
            '(subnormal / huge / zero operands included); exploration over programs.',
            'Operands finite; exceptions of the documented classes are outcomes, not violations.',
            'DESIGN.md §4 C19'),
    'C20': ('Hypothesis-generated declaration programs with re-routing and name collisions vs a dict-model of '
            'the drives graph; immutability probes',
            'No counterexample among generated assembly histories; exploration.',
            'Cycles are outside the domain; acceptance of each declaration is observed, not predicted.',
            'DESIGN.md §4 C20'),
    'C01': ('Hypothesis-generated valid powertrains + histories; per-instant invariant over the recorded trace with '
            'ratios recomputed from the case',
            'Every recorded instant x every adjacent pair x {position, speed, acceleration} of every generated '
            'simulation satisfies the ratio relation; exploration over models and histories.',
            'Ratios from vp/model.py; tolerance 1e-9 relative; generator keeps k*dt in 0.02..1.2 so values stay finite.',
            'DESIGN.md §4 C01'),
    'C02': ('Hypothesis-generated powertrains with recording load function and duty-cycle histories; per-instant '
            'invariants (motor law, downstream/upstream propagation, external load at recorded state, net torque)',
            'No counterexample at any recorded instant of any generated simulation; the load oracle is evaluated on the '
            'recorded position/speed/time, so stale arguments are visible; exploration.',
            'vp/model.py (efficiencies incl. worm friction formula), vp/oracle/motor.py; tolerances 1e-9 / 64 eps.',
            'DESIGN.md §4 C02'),
    'C03': ('Hypothesis-generated powertrains; per-instant equation of motion with independently reduced inertia and '
            'step-by-step re-integration of the recorded trace, also across the seam of a run ended early by a stop condition and continued',
            'No counterexample at any recorded instant / pair of consecutive instants; exploration.',
            'Documented inertia reduction in vp/model.py; held instants (all speeds and accelerations exactly 0 in a '
            'self-locking powertrain) are exempt from the acceleration relation and judged by C13.',
            'DESIGN.md §4 C03'),
    'C04': ('Hypothesis-generated linear models simulated at four geometrically refined steps vs the closed-form '
            'exponential solution; error bound at every instant and error-halving ratio',
            'No counterexample among generated linear models; first-order convergence observed on a finite sequence of '
            'steps (not the limit); exploration.',
            'Closed form and Euler error constants; k from the case.',
            'DESIGN.md §4 C04'),
    'C07': ('metamorphic testing: every input quantity re-expressed in Hypothesis-drawn units with exact rational '
            'factors; outcome class, SI traces and a snapshot of the two executions compared (conditioning test before a difference is reported); constructor arguments in every unit',
            'No counterexample among generated (model, unit assignment) pairs; every unit of every kind is drawn as an '
            'input; exploration.',
            'Near-threshold policy (decisions within 1e-6 of a threshold are only compared for outcome class); soft '
            'position loads; mated gears carry identical module/helix numbers in the base case.',
            'DESIGN.md §4 C07'),
    'C09': ('exhaustive teeth numbers and optional-data subsets + Hypothesis-generated gear pairs vs independent '
            'formulas and own copies of the Lewis / worm tables',
            'Lewis factor for every teeth number 10..600 (spur, and helical at 8 helix angles) and every optional-data '
            'subset of both mates are covered completely; magnitudes/units sampled; exploration.',
            'vp/oracle/gears.py (tan-form base helix angle; worm gear force with tan(beta) as in worked example 7).',
            'DESIGN.md §4 C09'),
    'C11': ('Hypothesis-generated decimal steps m*10^-e in all time units, fresh and continued runs, vs the exact '
            'rational grid; a second Powertrain over the simulated chain must start a fresh grid',
            'No counterexample among generated (dt, n, unit, T-form) tuples (~1% of the 8e6-point finite domain per '
            'thorough run; not exhaustive); exploration.',
            'T is a multiple of dt; inertia chosen from dt so trajectories stay finite.',
            'DESIGN.md §4 C11'),
    'C12': ('differential testing of schedules: split vs single run (bit-identical for dyadic steps) and reset+rerun '
            'vs first epoch (bit-identical), Hypothesis-generated models emphasising held self-locking states',
            'No counterexample among generated (model, schedule) pairs; exploration over histories.',
            'Initial conditions re-applied after reset = position, speed of the last element and the initial duty '
            'cycle; near-threshold policy for decimal steps.',
            'DESIGN.md §4 C12'),
    'C13': ('Hypothesis-generated worm powertrains on both sides of the self-locking criterion under loads up to 100x '
            'stall and sign-changing duty cycles; reference lock state machine replayed over the recorded values',
            'No counterexample at any instant of any generated simulation (safety invariant, held-state invariants, '
            'release rule, no clamp in free powertrains); exploration.',
            'Decisions within 1e-9 of a threshold resynchronise on the observation.',
            'DESIGN.md §4 C13'),
    'C14': ('Hypothesis-generated rule sets with stub rules (None, out-of-range, exact +-1) - direct arbitration calls '
            'and whole simulations with overlapping windows',
            'No counterexample among generated rule sets / simulations; exploration.',
            'Proposals of built-in rules are taken from their own apply() (C15 judges them); NaN proposals excluded.',
            'DESIGN.md §4 C14'),
    'C15': ('Hypothesis-generated rule parameters and states on both sides of every window boundary (exact binary '
            'boundaries included) vs documented formulas; StartLimitCurrent root verified through the motor law; '
            'simulation-level consequence (recorded current = limit)',
            'No counterexample among generated (rule, state) pairs and controlled simulations; exploration.',
            'vp/oracle/rules.py; overall efficiency = product of all mating efficiencies (as documented).',
            'DESIGN.md §4 C15'),
    'C16': ('differential testing: stopped run vs un-stopped run of the same Hypothesis-generated case, threshold '
            'derived from a quantile of the un-stopped series; exact-tie and one-ulp-off-tie cases',
            'No counterexample among generated (model, sensor, operator, threshold) tuples; exploration.',
            'Readings within 1e-9 of the threshold are not judged unless the tie is exact.',
            'DESIGN.md §4 C16'),
    'C17': ('exhaustive product of optional-data subsets x 7 histories on small topologies + Hypothesis-generated '
            'chains; invariant after every operation',
            'Every optional-data configuration of the small topologies is covered completely for seven histories; longer '
            'chains sampled; exploration.',
            'Documented refusals (contact stress with an incomplete mate) are classified, not judged.',
            'DESIGN.md §4 C17'),
    'C18': ('Hypothesis-generated simulations with snapshots at / between instants in every time unit, every variable '
            'subset (exhaustive in thorough) and CSV round trip vs the recorded history converted with the SI table',
            'All 2047 variable subsets are covered in the thorough tier (every 10th in quick); models, targets and '
            'units sampled; exploration.',
            'Column order unspecified; interpolation tolerance 1e-9.',
            'DESIGN.md §4 C18'),
}

NOT_YET = {
}


def main():
    props = [json.loads(l) for l in open(os.path.join(HERE, 'properties.jsonl'))]
    checks = []
    na = []
    for p in props:
        pid = p['id']
        if pid in CHECKS:
            tech, text, note, ref = CHECKS[pid]
            checks.append({
                'property_id': pid,
                'quick_cmd': f'./check {pid} quick',
                'thorough_cmd': f'./check {pid} thorough',
                'evidence_file': f'evidence/{pid}.json',
                'replay_cmd_template': f'./check {pid} --replay {{path}}',
                'engine': 'vp-runner',
                'level_claimed': {'category': 'exploration', 'text': text, 'design_ref': ref},
                'level_note': note,
                'technique': tech,
            })
        else:
            na.append({'property_id': pid,
                       'reason': NOT_YET.get(pid, 'check under construction in this session; not claimed '
                                                  'until its generator, oracle and sensitivity run exist')})
    man = {
        'version': 1,
        'setup_cmd': 'sh ./setup.sh',
        'hooks': {
            'guard': 'ANDREABLENGINO_GEARPY_VERIF',
            'enable': 'no hooks: every property is observed through the public API; checks import gearpy '
                      'from /repo\'s working tree in a fresh interpreter',
            'baseline_off_cmd': 'cd /repo && /venv/bin/python -m pytest -ra -q -p no:cacheprovider '
                                '--timeout=900 --continue-on-collection-errors',
            'source_commits': [],
            'add_only': True,
        },
        'engines': [{
            'name': 'vp-runner',
            'path': 'vp/runner.py',
            'serves_properties': [c['property_id'] for c in checks],
            'kind_free_text': 'Hypothesis 6.168 generators (JSON case language, program-as-data histories) + '
                              'itertools enumeration of finite sub-domains, collect-then-shrink by root-cause '
                              'signature, independent float/rational oracles; 16-process sharding',
        }],
        'checks': checks,
        'notes': 'Every check: ./check <ID> quick|thorough; replay: ./check <ID> --replay <file>. '
                 'Exit 0 held / 1 VIOLATION / 2 harness error. KNOWN_FINDINGS.txt lists recorded findings and fixes.',
        'not_applicable': na,
    }
    with open(os.path.join(HERE, 'MANIFEST.json'), 'w') as fh:
        json.dump(man, fh, indent=1)
    print(f'{len(checks)} checks claimed, {len(na)} not claimed')


if __name__ == '__main__':
    main()
