#!/usr/bin/env python3
"""Regenerates MANIFEST.json from the table below (kept in one place so it is always valid)."""
import json
import os

HERE = os.path.dirname(os.path.dirname(os.path.abspath(__file__)))

CHECKS = {
    # id: (technique, level text, level note, design ref)
    'C05': ('Hypothesis-generated values x exhaustive unit pairs vs exact rational SI table; '
            'metamorphic comparison oracle (far / same-up-to-rounding, both operand orders)',
            'No counterexample among generated conversions (all 607 ordered unit pairs per generated value) and '
            'generated comparison pairs; exploration, not proof. Right level: the property quantifies over a '
            'finite unit table (covered completely) times a continuous value range (sampled).',
            'Trusts the SI definitions typed into vp/oracle/units_si.py and IEEE double arithmetic; '
            'conversion tolerance 16 ulp; comparison pairs nearer than 1e-9 relative that are not conversion '
            'images are unconstrained.',
            'DESIGN.md §4 C05'),
    'C06': ('exhaustive enumeration of operator cells (kinds x units x 4 operators) with Hypothesis-drawn '
            'magnitudes vs an independent dimension table + SI table; inverse-law metamorphic checks',
            'Every operator cell is evaluated for each generated magnitude tuple, so the finite part of the domain '
            '(which kinds/units/operators) is covered completely and only magnitudes are sampled; exploration.',
            'Trusts the dimension vectors / SI factors of vp/oracle/units_si.py; additive tolerance 1e-12 of the '
            'operand magnitudes, multiplicative 1e-9; two cells are recorded known findings pinned by the suite.',
            'DESIGN.md §4 C06'),
    'C08': ('Hypothesis-generated motors/speeds/duty cycles aimed at the dead-zone boundary (ulp neighbours) vs '
            'the piecewise law re-typed from the statement; anchors, continuity and sign-reversal relations',
            'No counterexample among generated (motor, speed, duty) triples, 40% of them within 4 ulp of the '
            'dead-zone boundary; exploration of a pure function with a closed-form oracle.',
            'Trusts vp/oracle/motor.py (12 lines) and the SI table; tolerance 1e-9 scaled by 1+|w/(D w0)|.',
            'DESIGN.md §4 C08'),
    'C10': ('Hypothesis-generated declaration programs (program-as-data) interpreted against a reference model '
            'of the three declaration functions; full before/after snapshots of every element',
            'No counterexample among generated call sequences; every call is judged (accept/reject prediction, '
            'resulting state, untouched bystanders); exploration over histories.',
            'Trusts vp/oracle/relations.py; pairs the statement does not specify (worm/wheel with different helix, '
            'wheel in a gear mating, conditions within 1e-9 of a threshold) are only checked for consistency.',
            'DESIGN.md §4 C10'),
    'C19': ('Hypothesis-generated straight-line programs over a pool of live quantities with an invariant after '
            'every step; boundary-aimed constructor arguments',
            'No live constrained quantity violated its constraint after any step of any generated program '
            '(subnormal / huge / zero operands included); exploration over programs.',
            'Operands finite; exceptions of the documented classes are outcomes, not violations.',
            'DESIGN.md §4 C19'),
    'C20': ('Hypothesis-generated declaration programs with re-routing and name collisions vs a dict-model of '
            'the drives graph; immutability probes',
            'No counterexample among generated assembly histories; exploration.',
            'Cycles are outside the domain; acceptance of each declaration is observed, not predicted.',
            'DESIGN.md §4 C20'),
}

NOT_YET = {
}


def main():
    props = [json.loads(l) for l in open(os.path.join(HERE, 'properties.jsonl'))]
    checks = []
    na = []
    for p in props:
        pid = p['id']
        if pid in CHECKS:
            tech, text, note, ref = CHECKS[pid]
            checks.append({
                'property_id': pid,
                'quick_cmd': f'./check {pid} quick',
                'thorough_cmd': f'./check {pid} thorough',
                'evidence_file': f'evidence/{pid}.json',
                'replay_cmd_template': f'./check {pid} --replay {{path}}',
                'engine': 'vp-runner',
                'level_claimed': {'category': 'exploration', 'text': text, 'design_ref': ref},
                'level_note': note,
                'technique': tech,
            })
        else:
            na.append({'property_id': pid,
                       'reason': NOT_YET.get(pid, 'check under construction in this session; not claimed '
                                                  'until its generator, oracle and sensitivity run exist')})
    man = {
        'version': 1,
        'setup_cmd': 'sh ./setup.sh',
        'hooks': {
            'guard': 'ANDREABLENGINO_GEARPY_VERIF',
            'enable': 'no hooks: every property is observed through the public API; checks import gearpy '
                      'from /repo\'s working tree in a fresh interpreter',
            'baseline_off_cmd': 'cd /repo && /venv/bin/python -m pytest -ra -q -p no:cacheprovider '
                                '--timeout=900 --continue-on-collection-errors',
            'source_commits': [],
            'add_only': True,
        },
        'engines': [{
            'name': 'vp-runner',
            'path': 'vp/runner.py',
            'serves_properties': [c['property_id'] for c in checks],
            'kind_free_text': 'Hypothesis 6.168 generators (JSON case language, program-as-data histories) + '
                              'itertools enumeration of finite sub-domains, collect-then-shrink by root-cause '
                              'signature, independent float/rational oracles; 16-process sharding',
        }],
        'checks': checks,
        'notes': 'Every check: ./check <ID> quick|thorough; replay: ./check <ID> --replay <file>. '
                 'Exit 0 held / 1 VIOLATION / 2 harness error. KNOWN_FINDINGS.txt lists recorded findings and fixes.',
        'not_applicable': na,
    }
    with open(os.path.join(HERE, 'MANIFEST.json'), 'w') as fh:
        json.dump(man, fh, indent=1)
    print(f'{len(checks)} checks claimed, {len(na)} not claimed')


if __name__ == '__main__':
    main()
