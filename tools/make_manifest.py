#!/usr/bin/env python3
"""Regenerates MANIFEST.json from the table below (kept in one place so it is always valid)."""
import json
import os

HERE = os.path.dirname(os.path.dirname(os.path.abspath(__file__)))

CHECKS = {
    # id: (technique, level text, level note, design ref)
    'C05': ('Hypothesis-generated values x exhaustive unit pairs vs exact rational SI table; '
            'metamorphic comparison oracle (far / same-up-to-rounding, both operand orders)',
            'No counterexample among generated conversions (all 607 ordered unit pairs per generated value) and '
            'generated comparison pairs; exploration, not proof. Right level: the property quantifies over a '
            'finite unit table (covered completely) times a continuous value range (sampled).',
            'Trusts the SI definitions typed into vp/oracle/units_si.py and IEEE double arithmetic; '
            'conversion tolerance 16 ulp; comparison pairs nearer than 1e-9 relative that are not conversion '
            'images are unconstrained.',
            'DESIGN.md §4 C05'),
}

NOT_YET = {
}


def main():
    props = [json.loads(l) for l in open(os.path.join(HERE, 'properties.jsonl'))]
    checks = []
    na = []
    for p in props:
        pid = p['id']
        if pid in CHECKS:
            tech, text, note, ref = CHECKS[pid]
            checks.append({
                'property_id': pid,
                'quick_cmd': f'./check {pid} quick',
                'thorough_cmd': f'./check {pid} thorough',
                'evidence_file': f'evidence/{pid}.json',
                'replay_cmd_template': f'./check {pid} --replay {{path}}',
                'engine': 'vp-runner',
                'level_claimed': {'category': 'exploration', 'text': text, 'design_ref': ref},
                'level_note': note,
                'technique': tech,
            })
        else:
            na.append({'property_id': pid,
                       'reason': NOT_YET.get(pid, 'check under construction in this session; not claimed '
                                                  'until its generator, oracle and sensitivity run exist')})
    man = {
        'version': 1,
        'setup_cmd': 'sh ./setup.sh',
        'hooks': {
            'guard': 'ANDREABLENGINO_GEARPY_VERIF',
            'enable': 'no hooks: every property is observed through the public API; checks import gearpy '
                      'from /repo\'s working tree in a fresh interpreter',
            'baseline_off_cmd': 'cd /repo && /venv/bin/python -m pytest -ra -q -p no:cacheprovider '
                                '--timeout=900 --continue-on-collection-errors',
            'source_commits': [],
            'add_only': True,
        },
        'engines': [{
            'name': 'vp-runner',
            'path': 'vp/runner.py',
            'serves_properties': [c['property_id'] for c in checks],
            'kind_free_text': 'Hypothesis 6.168 generators (JSON case language, program-as-data histories) + '
                              'itertools enumeration of finite sub-domains, collect-then-shrink by root-cause '
                              'signature, independent float/rational oracles; 16-process sharding',
        }],
        'checks': checks,
        'notes': 'Every check: ./check <ID> quick|thorough; replay: ./check <ID> --replay <file>. '
                 'Exit 0 held / 1 VIOLATION / 2 harness error. KNOWN_FINDINGS.txt lists recorded findings and fixes.',
        'not_applicable': na,
    }
    with open(os.path.join(HERE, 'MANIFEST.json'), 'w') as fh:
        json.dump(man, fh, indent=1)
    print(f'{len(checks)} checks claimed, {len(na)} not claimed')


if __name__ == '__main__':
    main()
