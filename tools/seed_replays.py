#!/usr/bin/env python3
"""tools/seed_replays.py [<key> ...]  (default: every seeded/<key>)
For each seeded change: scratch worktree + patch, run the property's own quick check with VERIF_OUT redirected, and keep
the (first two) replay files it wrote as permanent regression cases: replays/<ID>/seeded-<key>-<n>.json. On the
unchanged tree they pass; with the change they fail in the replay tier, without any search."""
import glob
import json
import os
import shutil
import subprocess
import sys
import tempfile

VERIF = os.path.dirname(os.path.dirname(os.path.abspath(__file__)))


def sh(cmd, cwd=None, env=None):
    e = dict(os.environ)
    if env:
        e.update(env)
    p = subprocess.run(cmd, shell=True, cwd=cwd, env=e, capture_output=True, text=True, timeout=3000)
    return p.returncode, p.stdout + p.stderr


def main():
    keys = sys.argv[1:] or sorted(os.path.basename(p) for p in glob.glob(os.path.join(VERIF, 'seeded', '*')))
    for key in keys:
        pid = key.split('-')[0]
        patch = os.path.join(VERIF, 'seeded', key, 'patch.diff')
        if not os.path.exists(patch):
            continue
        scratch = tempfile.mkdtemp(prefix='seedwt_')
        os.rmdir(scratch)
        out = tempfile.mkdtemp(prefix='seedout_')
        try:
            sh(f'git -C /repo worktree add -q --detach {scratch} HEAD')
            rc, o = sh(f'git -C {scratch} apply {patch}')
            if rc != 0:
                print(key, 'patch does not apply')
                continue
            rc, o = sh(f'./check {pid} quick', cwd=VERIF, env={'VERIF_PACKAGE_ROOT': scratch, 'VERIF_OUT': out, 'VERIF_SEED': '1'})
            files = sorted(glob.glob(os.path.join(out, 'replays', pid, '*.json')), key=os.path.getsize)
            kept = 0
            for f in files:
                doc = json.load(open(f))
                if len(json.dumps(doc)) > 60000:
                    continue
                dst = os.path.join(VERIF, 'replays', pid, f'seeded-{key}-{kept + 1}.json')
                os.makedirs(os.path.dirname(dst), exist_ok=True)
                doc['origin'] = f'found by ./check {pid} quick against seeded/{key}/patch.diff'
                json.dump(doc, open(dst, 'w'), indent=1, sort_keys=True, default=repr)
                kept += 1
                if kept == 2:
                    break
            print(key, 'rc', rc, 'replays kept', kept, [l.strip()[:80] for l in o.splitlines() if l.startswith('  [')][:2])
        finally:
            sh(f'git -C /repo worktree remove --force {scratch}')
            shutil.rmtree(scratch, ignore_errors=True)
            shutil.rmtree(out, ignore_errors=True)


if __name__ == '__main__':
    main()
