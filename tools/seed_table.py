#!/usr/bin/env python3
"""Adds the hand-written 'change' / 'needs' descriptions to seeded/*/meta.json and prints the markdown table of
DESIGN.md §9 (which registered quick check catches which seeded change)."""
import glob
import json
import os

VERIF = os.path.dirname(os.path.dirname(os.path.abspath(__file__)))

DESC = {
    'C01-1': ('solver skips the motor-ward position/speed sweep while already locked + lock flag kept across a fresh start',
              'self-locking model that ends held; reset; NEW initial position; rerun with the same Solver'),
    'C01-2': ('kinematic transmission rebuilds upstream quantities from raw .value labelled rad, rad/s, rad/s^2',
              'initial position or speed of the last element written in a unit other than rad / rad/s'),
    'C02-1': ('Solver caches powertrain.time at construction; load function evaluated at the cached list\'s last entry',
              'run, reset (time list rebound), rerun with the SAME Solver, time-dependent load'),
    'C02-2': ('driving-torque propagation copies the driver\'s torque when the ratio is 1 (efficiency dropped)',
              'a real 1:1 gear mating (equal teeth) with efficiency < 1'),
    'C03-1': ('inertia reduction multiplies by the ratio only for GearBase elements',
              'a worm gear driven by its wheel (ratio != 1 on a non-GearBase element)'),
    'C03-2': ('position integrated after the self-locking clamp (with the clamped speed)',
              'self-locking model at the instant the lock engages with a non-zero advanced speed'),
    'C04-1': ('continued run does not convert the last instant to the new step\'s unit',
              'run then continue with dt written in another time unit'),
    'C04-2': ('motor torque law folded into abs(pwm)*w0 and abs(speed)/w0',
              'rotor turning against the duty cycle: load above stall, or negative duty cycle'),
    'C05-1': ('absolute tolerance of cross-unit comparisons raised from 1e-300 to 1e-14',
              'operands in different units whose numbers in the left operand\'s unit are <= ~1e-14'),
    'C05-2': ('in-place conversion stores type(old value)(converted value)',
              'int-valued quantity converted in place to a unit where the result is not a whole number'),
    'C06-1': ('TimeInterval in-place conversion leaves a stale private value that + and - then use',
              'in-place conversion of the left operand followed by addition / subtraction'),
    'C06-2': ('new TimeInterval.__rsub__ with swapped operands', 'Time - TimeInterval'),
    'C07-1': ('continued run does not convert the last instant to the new step\'s unit',
              'continuation whose dt is in another unit than the first run'),
    'C07-2': ('dead-zone current built from the raw no-load current value labelled with the maximum current\'s unit',
              'no-load and maximum current in different units and |D| <= i0/imax'),
    'C08-1': ('current law sum reordered so that the result is in i0\'s unit but labelled with imax\'s unit',
              'no-load and maximum current in different units, duty cycle outside the dead zone'),
    'C08-2': ('motor without current data scales torque and no-load speed with the duty cycle',
              'motor without current data and duty cycle != 1'),
    'C09-1': ('worm wheel effective face width chosen by comparing raw .value numbers',
              'wheel face width and worm reference diameter written in different units'),
    'C09-2': ('spur gear caches the mate-dependent part of the contact stress and never invalidates it',
              'compute the contact stress, re-mate the gear with another partner, compute again'),
    'C10-1': ('worm mating: efficiency range check left to the setter, after links / roles / ratio are written',
              'a pair rejected on the computed efficiency (wheel driving a self-locking worm; 30 deg / 45 deg / f = 1)'),
    'C10-2': ('gear mating: compatibility checks flattened into one if/elif chain with the module check first',
              'both gears define equal modules and are spur-with-helical or have different helix angles'),
    'C11-1': ('continued run does not convert the last instant to the new step\'s unit',
              'continuation with dt in another unit'),
    'C11-2': ('last recorded instant overwritten with start + T after the loop ("round-off clean-up")',
              'a stop condition firing before the last step'),
    'C12-1': ('lock flag no longer cleared on a fresh start', 'self-locking model ending held; reset; rerun with the same Solver'),
    'C12-2': ('continuation converts the last instant to the unit of simulation_time instead of time_discretization',
              'a continuation whose dt and T are written in different units'),
    'C13-1': ('lock flag cleared at the start of every run, also continued ones',
              'self-locking model held under a load above stall; continue the run on the same Solver'),
    'C13-2': ('Powertrain.self_locking decided by the first worm gear only',
              'two worm matings in series, the first not self-locking, the second self-locking'),
    'C14-1': ('PWMControl evaluates the previously applied rule first and returns if it is still applicable',
              'rule A active alone, then rule B becomes applicable too'),
    'C14-2': ('Solver skips apply_rules() while the powertrain is flagged locked',
              'self-locking worm drive held by ConstantPWM(0); afterwards no rule applies (default 1 expected)'),
}


def main():
    rows = []
    for path in sorted(glob.glob(os.path.join(VERIF, 'seeded', '*', 'meta.json'))):
        m = json.load(open(path))
        key = os.path.basename(os.path.dirname(path))
        if key in DESC:
            m['change'], m['needs_to_manifest'] = DESC[key]
            m['what_was_run'] = ('tools/seed_eval.py: scratch worktree of /repo HEAD + git apply; demo.py with and without '
                                 'the change; the whole test suite inside the scratch worktree; every registered quick check '
                                 'against the scratch worktree (VERIF_PACKAGE_ROOT)')
            json.dump(m, open(path, 'w'), indent=1)
        ok = (m.get('demo_with_change_rc') not in (0, None) and m.get('demo_without_change_rc') == 0
              and m.get('suite_with_change', {}).get('rc') == 0)
        own = m.get('quick_checks', {}).get(m['property'], {})
        rows.append((key, m.get('change', ''), 'yes' if ok else 'NO', 'yes' if m.get('own_check_catches') else 'no',
                     ', '.join(own.get('signatures', [])[:2]), ', '.join(c for c in m.get('caught_by', []) if c != m['property'])))
    print('| seeded change | what it is | confirmed | own check (quick) | signature(s) | also caught by |')
    print('|---|---|---|---|---|---|')
    for r in rows:
        print('| ' + ' | '.join(r) + ' |')


if __name__ == '__main__':
    main()
