#!/usr/bin/env python3
"""Adds the hand-written 'change' / 'needs' descriptions to seeded/*/meta.json and prints the markdown table of
DESIGN.md §9 (which registered quick check catches which seeded change)."""
import glob
import json
import os

VERIF = os.path.dirname(os.path.dirname(os.path.abspath(__file__)))

DESC = {
    'C01-1': ('solver skips the motor-ward position/speed sweep while already locked + lock flag kept across a fresh start',
              'self-locking model that ends held; reset; NEW initial position; rerun with the same Solver'),
    'C01-2': ('kinematic transmission rebuilds upstream quantities from raw .value labelled rad, rad/s, rad/s^2',
              'initial position or speed of the last element written in a unit other than rad / rad/s'),
    'C02-1': ('Solver caches powertrain.time at construction; load function evaluated at the cached list\'s last entry',
              'run, reset (time list rebound), rerun with the SAME Solver, time-dependent load'),
    'C02-2': ('driving-torque propagation copies the driver\'s torque when the ratio is 1 (efficiency dropped)',
              'a real 1:1 gear mating (equal teeth) with efficiency < 1'),
    'C03-1': ('inertia reduction multiplies by the ratio only for GearBase elements',
              'a worm gear driven by its wheel (ratio != 1 on a non-GearBase element)'),
    'C03-2': ('position integrated after the self-locking clamp (with the clamped speed)',
              'self-locking model at the instant the lock engages with a non-zero advanced speed'),
    'C04-1': ('continued run does not convert the last instant to the new step\'s unit',
              'run then continue with dt written in another time unit'),
    'C04-2': ('motor torque law folded into abs(pwm)*w0 and abs(speed)/w0',
              'rotor turning against the duty cycle: load above stall, or negative duty cycle'),
    'C05-1': ('absolute tolerance of cross-unit comparisons raised from 1e-300 to 1e-14',
              'operands in different units whose numbers in the left operand\'s unit are <= ~1e-14'),
    'C05-2': ('in-place conversion stores type(old value)(converted value)',
              'int-valued quantity converted in place to a unit where the result is not a whole number'),
    'C06-1': ('TimeInterval in-place conversion leaves a stale private value that + and - then use',
              'in-place conversion of the left operand followed by addition / subtraction'),
    'C06-2': ('new TimeInterval.__rsub__ with swapped operands', 'Time - TimeInterval'),
    'C07-1': ('continued run does not convert the last instant to the new step\'s unit',
              'continuation whose dt is in another unit than the first run'),
    'C07-2': ('dead-zone current built from the raw no-load current value labelled with the maximum current\'s unit',
              'no-load and maximum current in different units and |D| <= i0/imax'),
    'C08-1': ('current law sum reordered so that the result is in i0\'s unit but labelled with imax\'s unit',
              'no-load and maximum current in different units, duty cycle outside the dead zone'),
    'C08-2': ('motor without current data scales torque and no-load speed with the duty cycle',
              'motor without current data and duty cycle != 1'),
    'C09-1': ('worm wheel effective face width chosen by comparing raw .value numbers',
              'wheel face width and worm reference diameter written in different units'),
    'C09-2': ('spur gear caches the mate-dependent part of the contact stress and never invalidates it',
              'compute the contact stress, re-mate the gear with another partner, compute again'),
    'C10-1': ('worm mating: efficiency range check left to the setter, after links / roles / ratio are written',
              'a pair rejected on the computed efficiency (wheel driving a self-locking worm; 30 deg / 45 deg / f = 1)'),
    'C10-2': ('gear mating: compatibility checks flattened into one if/elif chain with the module check first',
              'both gears define equal modules and are spur-with-helical or have different helix angles'),
    'C11-1': ('continued run does not convert the last instant to the new step\'s unit',
              'continuation with dt in another unit'),
    'C11-2': ('last recorded instant overwritten with start + T after the loop ("round-off clean-up")',
              'a stop condition firing before the last step'),
    'C12-1': ('lock flag no longer cleared on a fresh start', 'self-locking model ending held; reset; rerun with the same Solver'),
    'C12-2': ('continuation converts the last instant to the unit of simulation_time instead of time_discretization',
              'a continuation whose dt and T are written in different units'),
    'C13-1': ('lock flag cleared at the start of every run, also continued ones',
              'self-locking model held under a load above stall; continue the run on the same Solver'),
    'C13-2': ('Powertrain.self_locking decided by the first worm gear only',
              'two worm matings in series, the first not self-locking, the second self-locking'),
    'C14-1': ('PWMControl evaluates the previously applied rule first and returns if it is still applicable',
              'rule A active alone, then rule B becomes applicable too'),
    'C14-2': ('Solver skips apply_rules() while the powertrain is flagged locked',
              'self-locking worm drive held by ConstantPWM(0); afterwards no rule applies (default 1 expected)'),
    'C15-1': ('ConstantPWM latches "window elapsed" and never proposes again', 'run past the window, reset, rerun with the same rule object'),
    'C15-2': ('StartLimitCurrent returns i_lim/i_max for non-positive speed ratios', 'motor back-driven (negative speed) while the rule is in force'),
    'C16-1': ('stop condition not evaluated while the powertrain is locked', 'self-locking drive; condition first true at a held instant'),
    'C16-2': ('StopCondition.check_condition latches True', 'the same StopCondition reused after it triggered (run, reset, rerun)'),
    'C17-1': ('Powertrain.reset clears with dict.fromkeys(keys, []): one shared list', 'run, reset, run again'),
    'C17-2': ('worm wheel bending-stress key dropped once at mating time, only when the wheel is the slave',
              'wheel with module + face width DRIVING a worm without reference diameter'),
    'C18-1': ('snapshot locates the neighbouring samples assuming a uniform time step', 'run continued with another time step; snapshot in the continued part'),
    'C18-2': ('exporter converts driving / load torque with torque_unit but labels them with their own units',
              'driving_torque_unit or load_torque_unit different from torque_unit'),
    'C19-1': ('TimeInterval.to converts (mutating) before the positivity check', 'subnormal value, larger target unit, in place; look at the object after the refused call'),
    'C19-2': ('maximum helix angle row found with searchsorted on the converted degree value',
              '14.5 deg pressure angle written in rad / arcsec / rot with a helix in (16, 25] deg'),
    'C20-1': ('Powertrain.self_locking recomputed on every read', 're-mate the worm pair with another friction coefficient after the powertrain is built'),
    'C20-2': ('duplicate-name check groups only consecutive equal names', 'duplicate names on non-adjacent elements (chain of >= 3)'),
    # ---- second round (different mechanisms, asked to be harder to notice)
    'C01-3': ('a locking powertrain zeroes only the last element\'s speed', 'the instant the lock engages while the drive is moving'),
    'C01-4': ('master_gear_ratio defaults to 1.0 and add_fixed_joint no longer sets it', 'a gear once mated, later re-declared as the slave of a fixed joint'),
    'C02-3': ('load torque computed before the self-locking check / clamp', 'self-locking drive, speed-dependent load, the instant the lock engages while moving'),
    'C02-4': ('duty-cycle scaling of the motor torque uses raw current .value numbers', 'no-load and maximum current in different units, duty cycle strictly between cut-off and 1'),
    'C03-3': ('last step of a run integrates with the remainder when T is not a multiple of dt', 'simulation_time / time_discretization not an integer'),
    'C03-4': ('a continued run re-evaluates torques and acceleration at the seam without recording them',
              'something that affects the torques changes between two run calls (another motor_control)'),
    'C04-3': ('driving torque passes worm matings with 1/efficiency while the motor brakes', 'non-self-locking worm pair and rotor beyond the no-load speed'),
    'C04-4': ('continued run starts from a solver-private planned end instead of the last recorded instant', 'first run stopped early by a stop condition, then continued'),
    'C05-3': ('Time.to caches conversion factors per target unit, not cleared by in-place conversion', 'convert to U, convert in place to V, convert to U again'),
    'C05-4': ('strict ordering rewritten as a > b*(1+tol): tolerance band on the wrong side for negatives', 'negative operands of equal magnitude in different units, < or >'),
    'C06-3': ('Length.to memoises and hands back the cached object', 'r = d.to(m); r.to(cm, inplace=True); arithmetic that converts d to metres again'),
    'C06-4': ('deg/h factor rewritten as pi/180/360', 'an operand in deg/h combined with another unit or a Time'),
    'C07-3': ('Timer.is_active compares a plain float ratio (tolerance lost)', 'time step and timer duration in different units, window ending exactly on an instant'),
    'C07-4': ('worm table rows looked up by the exact float of the pressure angle in degrees', '14.5 or 30 deg pressure angle written in rad / arcmin / arcsec / rot'),
    'C08-3': ('current law reuses the duty-scaled maximum torque stored by the last compute_torque', 'compute_torque at one duty cycle, change pwm, set driving_torque, compute_electric_current'),
    'C08-4': ('motor control applied at the end of the solver step', 'any controlled run in which the commanded duty cycle changes'),
    'C09-3': ('worm wheel bending uses the wheel\'s own helix angle when the wheel is the master', 'wheel driving a worm whose helix angle differs'),
    'C09-4': ('helical contact stress asks the mate\'s contact_stress_is_computable flag', 'mate with module and modulus but no face width'),
    'C10-3': ('self-locking flag computed as f / tan(beta) > cos(alpha)', 'friction coefficient EXACTLY on the documented threshold (differs by rounding only)'),
    'C10-4': ('spur gear treated as a helical gear with a 0 deg helix', 'helical gear with helix exactly 0 mated with a spur gear'),
    'C12-3': ('reset restores the duty cycle only for motors with current data', 'motor without current data, schedule ending with pwm = 0, reset, rerun'),
    'C12-4': ('Timer.is_active latches "elapsed"', 'window ends before the run ends; reset; rerun with the same control objects'),
    'C13-3': ('lock release keyed on the sign of the driving torque instead of the duty cycle', 'motor without current data and a negative duty cycle'),
    'C13-4': ('self_locking flag only ever set to True on a re-mated worm (default False)', 'the same worm mated repeatedly with decreasing friction across the limit'),
    'C17-3': ('a locked powertrain zeroes the acceleration of the last element only', 'self-locking drive already locked at t = 0'),
    'C17-4': ('a continuation in another unit appends the converted junction instant to Powertrain.time', 'continue with dt written in another time unit'),
    'C18-3': ('exporter skips the conversion when the first sample is already in the requested unit', 'load function returning torques in different units at different instants'),
    'C18-4': ('snapshot caches the time axis, rebuilt only when the number of instants changes', 'run, snapshot, reset, rerun with another step but the same number of instants, snapshot'),
    'C11-3': ('time loop breaks early when the powertrain is locked and no motor control was passed', 'self-locking drive with a persistent lock, uncontrolled run'),
    'C11-4': ('fresh-start logic keyed on "first run of this Solver object"', 'already simulated powertrain continued with a NEW Solver object'),
    'C14-3': ('apply_rules raises only when the clipped proposals are distinct', 'two applicable rules proposing the same (clipped) value'),
    'C14-4': ('PWMControl.__len__ added and the solver tests `if motor_control:`', 'a PWMControl without rules and a motor whose duty cycle is not already 1'),
    'C15-3': ('efficiency helper of the rules skips worm gears', 'worm gear driven by its wheel, non-zero motor load'),
    'C15-4': ('StartLimitCurrent uses the raw no-load current value', 'no-load and maximum current in different units'),
    'C16-3': ('a stop condition already true at the junction is ignored in a resumed run until it was false once', 'run, then continue with a condition that holds at the junction'),
    'C16-4': ('stop condition checked before the motor current is recomputed', 'amperometer-based stop conditions'),
    'C19-3': ('no-load vs maximum current ordering checked through a plain float ratio', 'equal currents written in different units'),
    'C19-4': ('pwm setter accepts values within 1e-12 above 1', 'duty cycle 1.0000000000000002 assigned directly'),
    'C20-3': ('the last worm gear overwrites the self-locking flag', 'two worm pairs, the earlier self-locking, the later not'),
    'C20-4': ('chain walk follows drives only while the follower points back', 'an element given a second master'),
    # ---- third round
    'C02-5': ('motor characteristic clamps the speed ratio at zero (stall clamp)', 'rotor turning against the supply direction (load above stall on a free train)'),
    'C02-6': ('loads evaluated in a first pass, reflected upstream in a second pass that overwrites loaded elements', 'an external load on an intermediate element'),
    'C03-5': ('integration step derived from the raw difference of the last two instants', 'first step of a continuation whose dt is written in another unit'),
    'C03-6': ('acceleration of the last element cached in the Solver object', 'a run continued by a different Solver object'),
    'C12-5': ('extra "held at rest" lock branch keyed on the previous motor torque', 'self-locking drive at rest under a load above stall; reset; rerun'),
    'C12-6': ('Solver caches powertrain.time and powertrain.elements', 'time-dependent load; reset; rerun with the same Solver'),
    'C13-5': ('lock check skipped while motor.torque is None (first instant of a first run)', 'initial speed opposing the duty cycle, or pwm 0 with non-zero initial speed'),
    'C13-6': ('lock decided after motor control (duty cycle just commanded instead of the one in force)', 'control reversing sign at the instant the back-driven speed first appears'),
    'C17-5': ('entry check of the stop condition placed after update_time', 'run() entered with the stop condition already true'),
    'C17-6': ('Solver.__init__ re-declares the motor pwm history as an empty list', 'a second Solver bound to an already simulated powertrain'),
    'C18-5': ('clamp of the snapshot target into the recorded range removed', 'snapshot at the last instant written in another time unit'),
    'C18-6': ('snapshot returns the frame rounded to 6 decimals when print_data is on', 'print_data=True (the default)'),
    'C01-5': ('ratio taken from master_gear_ratio only when the element\'s mating role is slave', 'an idler gear: three or more gears meshing in series'),
    'C01-6': ('acceleration step returns early when the net torque of the last element is exactly zero', 'zero external load, duty cycle inside the dead zone, drive coasting'),
    'C09-5': ('tooth force and stresses not refreshed while a self-locking drive is held', 'held phase during which the load changes'),
    'C09-6': ('Lewis factor interpolation extrapolates beyond the table', 'teeth number (or virtual teeth number) above 500'),
    'C14-5': ('proposals collected with isinstance(value, float)', 'a rule proposing a Python int (0, 1, -1)'),
    'C14-6': ('apply_rules binds the tuple of rule.apply methods on its first call', 'use the control, add a rule, use it again'),
    'C15-5': ('ConstantPWM.apply written as `active and value or None`', 'a constant duty cycle of 0'),
    'C15-6': ('StartProportional: a given pwm_min overrides the computed minimum', 'pwm_min supplied together with a non-null computed minimum'),
    'C16-5': ('threshold converted once and cached as a bare number', 'the unit of the sensed quantity changes during the life of the StopCondition'),
    'C16-6': ('stop check tested with `is True`', 'numpy-typed values in the simulation (numpy.bool_ comparison results)'),
    'C07-5': ('DCMotor converts the no-load speed once, to the unit of the first rotor speed it sees', 'initial speed not in rad/s and a self-locking lock (which substitutes 0 rad/s) followed by a release'),
    'C07-6': ('sin / cos / tan with a non-default frequency skip the conversion to radians', 'a load function calling angular_position.sin(frequency=...) with the position not in rad'),
    'C04-5': ('driving torque passes unchanged through any element whose ratio is 1', 'a 1:1 gear mating (equal teeth) with efficiency < 1'),
    'C04-6': ('Solver caches the efficiency*ratio factors of the driving side at construction', 'a mating efficiency re-declared after the Solver was built, then reset + rerun with that Solver'),
    'C05-5': ('== / != gain a fast path for equal numbers that ignores the units', 'the same non-zero number in two different units'),
    'C05-6': ('TimeInterval.to: same-unit copy fast path + in-place branch not refreshing the private value', 'to(sec, inplace) followed by to(sec)'),
    'C06-5': ('UnitBase.__add__ returns other.to(unit) when the left operand is zero', 'an exactly zero AngularPosition / Time plus an Angle / TimeInterval'),
    'C06-6': ('error branch of __sub__ tests `self < other` instead of the numeric difference', 'equal magnitudes of a strictly positive kind: returns None'),
    'C08-5': ('solver assigns the no-load current whenever the driving torque is exactly zero', 'duty cycle commanded into the dead zone during a run'),
    'C08-6': ('dead-zone test of the current law made strict (< instead of <=)', 'positive duty cycle bit-exactly on the dead-zone boundary'),
    'C10-5': ('add_gear_mating writes the ratio only when the pair was not linked before', 'the same pair first joined with add_fixed_joint, then mated'),
    'C10-6': ('pressure-angle check compares the wheel with itself when the wheel drives', 'wheel-driven pair with different pressure angles'),
    'C11-5': ('Solver keeps an alias of powertrain.time', 'run, reset, rerun with the same Solver'),
    'C11-6': ('TimeInterval.to(inplace=True) refreshes the unit but not the private value', 'simulation_time converted in place before run()'),
    'C19-5': ('sign check of the no-load current became the elif of the ordering check', 'negative no-load current together with a valid maximum current'),
    'C19-6': ('MINIMUM_TEETH_NUMBER loaded lazily (placeholder 1 until the first Lewis look-up)', 'a gear with 1..9 teeth built before any gear with module and face width'),
    'C20-5': ('reset() clears the self-locking flag', 'build, run, reset, then read the flag or rerun'),
    'C20-6': ('chain walk memoised per motor (lru_cache)', 'a second Powertrain built from the same motor after more declarations'),
}


def main():
    rows = []
    for path in sorted(glob.glob(os.path.join(VERIF, 'seeded', '*', 'meta.json'))):
        m = json.load(open(path))
        key = os.path.basename(os.path.dirname(path))
        if key in DESC:
            m['change'], m['needs_to_manifest'] = DESC[key]
            m['what_was_run'] = ('tools/seed_eval.py: scratch worktree of /repo HEAD + git apply; demo.py with and without '
                                 'the change; the whole test suite inside the scratch worktree; every registered quick check '
                                 'against the scratch worktree (VERIF_PACKAGE_ROOT)')
            json.dump(m, open(path, 'w'), indent=1)
        ok = (m.get('demo_with_change_rc') not in (0, None) and m.get('demo_without_change_rc') == 0
              and m.get('suite_with_change', {}).get('rc') == 0)
        own = m.get('quick_checks', {}).get(m['property'], {})
        rows.append((key, m.get('change', ''), 'yes' if ok else 'NO', 'yes' if m.get('own_check_catches') else 'no',
                     ', '.join(own.get('signatures', [])[:2]), ', '.join(c for c in m.get('caught_by', []) if c != m['property'])))
    print('| seeded change | what it is | confirmed | own check (quick) | signature(s) | also caught by |')
    print('|---|---|---|---|---|---|')
    for r in rows:
        print('| ' + ' | '.join(r) + ' |')


if __name__ == '__main__':
    main()
