#!/usr/bin/env python3
"""tools/fill_design_table.py - writes the output of tools/seed_table.py between the SEEDED-TABLE markers of DESIGN.md"""
import os
import subprocess
import sys

VERIF = os.path.dirname(os.path.dirname(os.path.abspath(__file__)))
table = subprocess.run([sys.executable, os.path.join(VERIF, 'tools', 'seed_table.py')], capture_output=True, text=True,
                       check=True).stdout
p = os.path.join(VERIF, 'DESIGN.md')
s = open(p).read()
a, b = '<!-- SEEDED-TABLE-BEGIN -->', '<!-- SEEDED-TABLE-END -->'
i, j = s.index(a) + len(a), s.index(b)
open(p, 'w').write(s[:i] + '\n' + table + s[j:])
print(table.count('\n') - 2, 'rows')
