#!/bin/sh
# tools/oldfile.sh <ID> <commit> <file under gearpy/> [more files...] : run the quick check against a scratch copy of
# the package in which the named files are taken from <commit> (e.g. the pre-fix snapshot).
id="$1"; commit="$2"; shift 2
d=$(mktemp -d /tmp/gp_old_XXXXXX)
cp -r /repo/gearpy "$d/gearpy"
for f in "$@"; do git -C /repo show "$commit:gearpy/$f" > "$d/gearpy/$f" || exit 3; done
cd /verif && VERIF_PACKAGE_ROOT="$d" VERIF_OUT="$d/out" timeout 900 ./check "$id" quick > "$d/log" 2>&1
rc=$?
echo "old [$commit: $*] $id quick: exit=$rc $(grep -c '^VIOLATION' "$d/log") violation line(s)"
grep -A1 '^VIOLATION' "$d/log" | cut -c1-400 | head -12
[ $rc -eq 2 ] && tail -5 "$d/log"
rm -rf "$d"
