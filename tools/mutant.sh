#!/bin/sh
# tools/mutant.sh <ID> <relative file under gearpy/> <python-regex-or-literal old> <new> [tier]
# Sensitivity run: copy the package to a scratch dir, apply one textual change, run the check against the
# copy (evidence and replays go to the scratch dir), print the verdict, remove the scratch dir.
id="$1"; file="$2"; old="$3"; new="$4"; tier="${5:-quick}"
d=$(mktemp -d /tmp/gp_mut_XXXXXX)
cp -r /repo/gearpy "$d/gearpy"
python3 - "$d/gearpy/$file" "$old" "$new" <<'PY' || { rm -rf "$d"; exit 3; }
import sys
p, old, new = sys.argv[1:4]
s = open(p).read()
if s.count(old) < 1:
    print('MUTANT: pattern not found', file=sys.stderr); sys.exit(1)
open(p, 'w').write(s.replace(old, new, 1))
PY
cd /verif && VERIF_PACKAGE_ROOT="$d" VERIF_OUT="$d/out" ./check "$id" "$tier" > "$d/log" 2>&1
rc=$?
echo "mutant [$file: $(echo "$old" | head -c 60 | tr '\n' ' ') -> $(echo "$new" | head -c 60| tr '\n' ' ')] $id $tier: exit=$rc $(grep -c '^VIOLATION' "$d/log") violation line(s)"
grep -A1 '^VIOLATION' "$d/log" | head -4 | cut -c1-300
[ $rc -eq 2 ] && tail -5 "$d/log"
rm -rf "$d"
exit 0
