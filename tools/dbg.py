"""debug helper: python tools/dbg.py <ID> <part> <n> — print classes/errors of generated cases"""
import sys, os, json, collections
sys.path.insert(0, os.path.dirname(os.path.dirname(os.path.abspath(__file__))))
import vp.runner as R
R.import_gearpy()
import importlib
from hypothesis import given, settings, seed, HealthCheck
mod = importlib.import_module(f'vp.props.{sys.argv[1].lower()}')
part = {p.name: p for p in mod.parts('quick')}[sys.argv[2]]
n = int(sys.argv[3])
errs = collections.Counter()
shown = 0
@seed(int(os.environ.get('VERIF_SEED', '1')))
@settings(max_examples=n, deadline=None, database=None, suppress_health_check=list(HealthCheck))
@given(part.strategy)
def t(case):
    global shown
    res = part.check(case)
    for attr in ('run_error', 'build_error'):
        e = getattr(res, attr, None)
        if e is not None:
            key = f'{attr}:{type(e).__name__}:{str(e)[:150]}'
            errs[key] += 1
            if errs[key] == 1:
                print(key); print('  case:', json.dumps(case)[:1500])
    for v in res.violations:
        errs['VIOL:' + v.sig] += 1
        if errs['VIOL:' + v.sig] == 1:
            print('VIOL', v.sig, v.msg[:600]); print('  case:', json.dumps(case)[:1500])
t()
print(errs)
