#!/usr/bin/env python3
"""tools/seed_matrix.py [--jobs=N] [--only-own] [<key> ...]
Re-runs every registered quick check (current code) against every seeded change and refreshes the detection fields of
seeded/<key>/meta.json ('quick_checks', 'caught_by', 'own_check_catches', 'matrix_verif_commit'); the confirmation
fields written by seed_eval.py (demo, test suite) are left as they are. --only-own re-runs only the property's own check
(the other columns keep the result of the last full evaluation)."""
import glob
import json
import os
import shutil
import subprocess
import sys
import tempfile
from concurrent.futures import ThreadPoolExecutor

VERIF = os.path.dirname(os.path.dirname(os.path.abspath(__file__)))
ALL = [f'C{i:02d}' for i in range(1, 21)]


def sh(cmd, cwd=None, env=None, timeout=3000):
    e = dict(os.environ)
    if env:
        e.update(env)
    try:
        p = subprocess.run(cmd, shell=True, cwd=cwd, env=e, capture_output=True, text=True, timeout=timeout)
        return p.returncode, p.stdout + p.stderr
    except subprocess.TimeoutExpired:
        return 124, 'timeout'


def one(key):
    pid = key.split('-')[0]
    mpath = os.path.join(VERIF, 'seeded', key, 'meta.json')
    patch = os.path.join(VERIF, 'seeded', key, 'patch.diff')
    if not (os.path.exists(mpath) and os.path.exists(patch)):
        return key, None
    meta = json.load(open(mpath))
    scratch = tempfile.mkdtemp(prefix='seedwt_')
    os.rmdir(scratch)
    out = tempfile.mkdtemp(prefix='seedout_')
    try:
        sh(f'git -C /repo worktree add -q --detach {scratch} HEAD')
        rc, o = sh(f'git -C {scratch} apply {patch}')
        if rc != 0:
            return key, 'patch does not apply'
        caught = dict(meta.get('quick_checks') or {}) if ONLY_OWN else {}
        for cid in ([pid] if ONLY_OWN else ALL):
            rc, o = sh(f'./check {cid} quick', cwd=VERIF,
                       env={'VERIF_PACKAGE_ROOT': scratch, 'VERIF_OUT': out, 'VERIF_SEED': '1'})
            sigs = [l.strip().split(']')[0].lstrip('[') for l in o.splitlines() if l.startswith('  [')]
            caught[cid] = {'rc': rc, 'signatures': sigs[:6]}
        if ONLY_OWN and caught[pid]['rc'] == 1 and not glob.glob(os.path.join(VERIF, 'replays', pid, f'seeded-{key}-*.json')):
            # keep (the two smallest of) the replay files the own check wrote as permanent regression cases
            files = sorted(glob.glob(os.path.join(out, 'replays', pid, '*.json')), key=os.path.getsize)
            kept = 0
            for f in files:
                if os.path.basename(f).startswith(('seeded-', 'quiet-', 'known-')):
                    continue
                doc = json.load(open(f))
                if len(json.dumps(doc)) > 60000:
                    continue
                doc['origin'] = f'found by ./check {pid} quick against seeded/{key}/patch.diff'
                dst = os.path.join(VERIF, 'replays', pid, f'seeded-{key}-{kept + 1}.json')
                json.dump(doc, open(dst, 'w'), indent=1, sort_keys=True, default=repr)
                kept += 1
                if kept == 2:
                    break
        meta['quick_checks'] = caught
        meta['caught_by'] = [c for c, v in caught.items() if v['rc'] == 1]
        meta['harness_errors'] = [c for c, v in caught.items() if v['rc'] not in (0, 1)]
        meta['own_check_catches'] = caught[pid]['rc'] == 1
        meta['own_check_verif_commit' if ONLY_OWN else 'matrix_verif_commit'] = sh('git -C /verif rev-parse --short HEAD')[1].strip()
        json.dump(meta, open(mpath, 'w'), indent=1)
        return key, (meta['own_check_catches'], meta['caught_by'], meta['harness_errors'])
    finally:
        sh(f'git -C /repo worktree remove --force {scratch}')
        shutil.rmtree(scratch, ignore_errors=True)
        shutil.rmtree(out, ignore_errors=True)


ONLY_OWN = '--only-own' in sys.argv


def main():
    args = [a for a in sys.argv[1:] if not a.startswith('--')]
    jobs = int(next((a.split('=')[1] for a in sys.argv if a.startswith('--jobs=')), '3'))
    keys = args or sorted(os.path.basename(p) for p in glob.glob(os.path.join(VERIF, 'seeded', '*')))
    with ThreadPoolExecutor(jobs) as ex:
        for key, r in ex.map(one, keys):
            print(key, r, flush=True)


if __name__ == '__main__':
    main()
