#!/bin/sh
# tools/sweep.sh <tier> <seeds...> : run every check at every seed in fresh processes; summary lines only
tier="$1"; shift
for seed in "$@"; do
  for id in C01 C02 C03 C04 C05 C06 C07 C08 C09 C10 C11 C12 C13 C14 C15 C16 C17 C18 C19 C20; do
    out=$(VERIF_SEED=$seed VERIF_OUT=/tmp/sweep_out timeout 3000 ./check $id $tier 2>&1); rc=$?
    echo "$out" | grep -E "^(VIOLATION|  \[|HARNESS)" | cut -c1-300
    echo "seed=$seed $id rc=$rc $(echo "$out" | tail -1 | cut -c1-200)"
  done
done
rm -rf /tmp/sweep_out
