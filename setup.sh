#!/bin/sh
# MANIFEST.setup_cmd: offline install of the generator libraries beside the repository's
# own packages. /venv itself is never modified; everything goes to /verif/.deps.
set -e
cd "$(dirname "$0")"
if [ -d .deps/hypothesis ] && [ -d .deps/atheris ]; then
  echo "setup: .deps already present"; exit 0
fi
rm -rf .deps
PIP_NO_INDEX=1 /venv/bin/python -m pip install --quiet --no-index \
  --find-links /opt/veriftools/wheels --target .deps hypothesis==6.168.0 atheris \
  || { echo "setup: wheel install failed; checks fall back to /venv's hypothesis" >&2; rm -rf .deps; }
exit 0
