"""Runner: environment pinning, tiers, sharding, collect-then-shrink, evidence, exit codes.

A property module (vp/props/cXX.py) exposes

    ID, RULE, ASSUMPTIONS            strings / list of strings for the evidence file
    parts(tier) -> list[Part]        what to explore in this tier
    selftest()  (optional)           oracle self-test; an exception here is exit 2

A Part names a checker ``check(case) -> Result`` over JSON cases and either a Hypothesis
strategy producing such cases (``strategy``) or a finite enumeration (``enumerate``).
Checkers never assert: they return the violations they saw, each tagged with a root-cause
signature, so that one shallow defect does not end the search (collect, then shrink).
"""
from __future__ import annotations

import hashlib
import importlib
import json
import multiprocessing as mp
import os
import sys
import time
import traceback
from dataclasses import dataclass, field
from typing import Any, Callable, Iterable, Optional

VERIF = os.path.dirname(os.path.dirname(os.path.abspath(__file__)))
PKG_ROOT = os.environ.get('VERIF_PACKAGE_ROOT', '/repo')
OUT = os.environ.get('VERIF_OUT', VERIF)      # evidence / new replays (redirected by the mutant driver)
DEPS = os.path.join(VERIF, '.deps')
if os.path.isdir(os.path.join(DEPS, 'hypothesis')):
    sys.path.insert(0, DEPS)
sys.path.insert(0, PKG_ROOT)

NCPU = 16


class HarnessError(Exception):
    pass


@dataclass
class Violation:
    sig: str
    msg: str


@dataclass
class Result:
    violations: list = field(default_factory=list)
    nontrivial: bool = False
    classes: tuple = ()
    count: int = 1              # elementary evaluations inside this case (e.g. operator cells)
    hist: dict = field(default_factory=dict)   # extra histogram merged into the class counts

    def bad(self, sig: str, msg: str):
        self.violations.append(Violation(sig, msg))


@dataclass
class Part:
    name: str
    check: Callable[[Any], Result]
    strategy: Any = None                       # hypothesis strategy -> JSON case
    enumerate: Optional[Callable[[], Iterable]] = None
    examples: int = 100                        # per process
    shards: int = 1                            # processes (thorough tier)
    exhaustive: bool = False                   # enumeration covers a finite space fully
    fuzz_runs: int = 0                         # thorough tier: extra coverage-guided campaign (atheris), per shard
    fuzz_shards: int = 0
    chunk: int = 2000                          # enumeration chunk size per task


def canon(case) -> str:
    return json.dumps(case, sort_keys=True, separators=(',', ':'), allow_nan=True, default=repr)


def chash(case) -> int:
    return int.from_bytes(hashlib.blake2b(canon(case).encode(), digest_size=8).digest(), 'big')


def import_gearpy():
    import gearpy
    root = os.path.realpath(PKG_ROOT)
    if not os.path.realpath(gearpy.__file__).startswith(root + os.sep):
        raise HarnessError(f'gearpy imported from {gearpy.__file__}, expected under {root}')
    return gearpy


# --------------------------------------------------------------------------------------
# statistics accumulated per part (mergeable across processes)

class Stats:
    def __init__(self):
        self.evaluations = 0
        self.elementary = 0
        self.nontrivial = set()
        self.classes = {}
        self.samples = []
        self.viol = {}          # sig -> (msg, case)
        self.viol_count = {}
        self.errors = []        # harness-level errors (checker crashed)

    def add(self, case, res: Result, keep_samples=3):
        self.evaluations += 1
        self.elementary += res.count
        for k, v in res.hist.items():
            self.classes[k] = self.classes.get(k, 0) + v
        if res.nontrivial:
            h = chash(case)
            if h not in self.nontrivial:
                self.nontrivial.add(h)
                if len(self.samples) < keep_samples:
                    self.samples.append(case)
        for c in res.classes:
            self.classes[c] = self.classes.get(c, 0) + 1
        for v in res.violations:
            self.viol_count[v.sig] = self.viol_count.get(v.sig, 0) + 1
            old = self.viol.get(v.sig)
            if old is None or len(canon(case)) < len(canon(old[1])):
                self.viol[v.sig] = (v.msg, case)

    def merge(self, o: 'Stats'):
        self.evaluations += o.evaluations
        self.elementary += o.elementary
        self.nontrivial |= o.nontrivial
        for k, v in o.classes.items():
            self.classes[k] = self.classes.get(k, 0) + v
        for s in o.samples:
            if len(self.samples) < 4:
                self.samples.append(s)
        for k, v in o.viol_count.items():
            self.viol_count[k] = self.viol_count.get(k, 0) + v
        for k, v in o.viol.items():
            old = self.viol.get(k)
            if old is None or len(canon(v[1])) < len(canon(old[1])):
                self.viol[k] = v
        self.errors += o.errors


CASE_WATCHDOG_S = 600.0


class CaseTimeout(Exception):
    """one case ran into the per-case watchdog: reported as a harness error (inconclusive), never as a violation"""


def _on_watchdog(signum, frame):
    raise CaseTimeout(f'case exceeded {CASE_WATCHDOG_S:.0f} s')


def _safe_check(part: Part, case, st: Stats):
    import signal
    old = signal.signal(signal.SIGALRM, _on_watchdog)
    signal.setitimer(signal.ITIMER_REAL, CASE_WATCHDOG_S)
    try:
        res = part.check(case)
    except Exception:
        st.errors.append((traceback.format_exc(limit=8), case))
        return
    finally:
        signal.setitimer(signal.ITIMER_REAL, 0)
        signal.signal(signal.SIGALRM, old)
    st.add(case, res)


def _hyp_settings(examples, shrink=False):
    from hypothesis import settings, HealthCheck, Phase
    phases = [Phase.generate] + ([Phase.shrink] if shrink else [])
    return settings(max_examples=examples, deadline=None, database=None, derandomize=False,
                    report_multiple_bugs=False, suppress_health_check=list(HealthCheck),
                    phases=phases, print_blob=False)


def _run_hyp(prop_mod_name: str, tier: str, part_name: str, seed: int, examples: int) -> Stats:
    """One Hypothesis run of one part in this process (pass 1: collect, never fail)."""
    from hypothesis import given, seed as hseed
    import_gearpy()
    mod = importlib.import_module(prop_mod_name)
    part = {p.name: p for p in mod.parts(tier)}[part_name]
    st = Stats()

    @hseed(seed)
    @_hyp_settings(examples)
    @given(part.strategy)
    def t(case):
        _safe_check(part, case, st)
        if len(st.errors) > 20:
            raise HarnessError('checker keeps crashing')

    try:
        t()
    except HarnessError:
        pass
    return st


def _run_enum_chunk(prop_mod_name: str, tier: str, part_name: str, lo: int, hi: int) -> Stats:
    import itertools
    import_gearpy()
    mod = importlib.import_module(prop_mod_name)
    part = {p.name: p for p in mod.parts(tier)}[part_name]
    st = Stats()
    for case in itertools.islice(part.enumerate(), lo, hi):
        _safe_check(part, case, st)
        if len(st.errors) > 20:
            break
    return st


def _shrink(part: Part, sig: str, seed: int, start_case, budget_examples=400):
    """Pass 2: dedicated search asserting 'no violation with this signature' -> shrunk case."""
    from hypothesis import given, seed as hseed, settings, HealthCheck, Phase
    if part.strategy is None:
        return start_case
    found = {}

    @hseed(seed)
    @settings(max_examples=budget_examples, deadline=None, database=None, derandomize=False,
              report_multiple_bugs=False, suppress_health_check=list(HealthCheck),
              phases=[Phase.generate, Phase.shrink], print_blob=False)
    @given(part.strategy)
    def t(case):
        try:
            res = part.check(case)
        except Exception:
            return
        if any(v.sig == sig for v in res.violations):
            found['case'] = case
            raise AssertionError(sig)

    t0 = time.time()
    try:
        t()
    except AssertionError:
        pass
    except Exception:
        pass
    c = found.get('case')
    if c is not None and len(canon(c)) <= len(canon(start_case)):
        return c
    return start_case


# --------------------------------------------------------------------------------------

def load_findings(pid: str):
    path = os.path.join(VERIF, 'KNOWN_FINDINGS.txt')
    out = []
    if not os.path.exists(path):
        return out
    for line in open(path):
        line = line.strip()
        if not line.startswith('finding:'):
            continue
        head, _, text = line[len('finding:'):].partition('::')
        kv = dict(tok.split('=', 1) for tok in head.split() if '=' in tok)
        if kv.get('property') == pid:
            out.append({'sig': kv['sig'], 'replay': kv.get('replay'), 'text': text.strip()})
    return out


def run_replays(mod, tier, findings, only: Optional[str] = None):
    """Replay tier: every saved case (regressions must pass, pinned findings are reported)."""
    parts = {p.name: p for p in mod.parts(tier)}
    known = {f['sig'] for f in findings}
    pinned = {os.path.normpath(f['replay']): f for f in findings if f.get('replay')}
    rdir = os.path.join(VERIF, 'replays', mod.ID)
    files = []
    if only:
        files = [only]
    elif os.path.isdir(rdir):
        files = sorted(os.path.join(rdir, f) for f in os.listdir(rdir) if f.endswith('.json'))
    n = 0
    new = []          # (sig, msg, path)
    hits = []         # finding dicts that still reproduce
    for path in files:
        doc = json.load(open(path))
        part = parts.get(doc.get('part'))
        if part is None:
            raise HarnessError(f'replay {path}: unknown part {doc.get("part")!r}')
        res = part.check(doc['case'])
        n += 1
        rel = os.path.normpath(os.path.relpath(os.path.abspath(path), VERIF))
        f = pinned.get(rel)
        sigs = [v.sig for v in res.violations]
        if f is not None and f['sig'] in sigs:
            hits.append(f)
        for v in res.violations:
            if v.sig not in known:
                new.append((v.sig, v.msg, rel))
    return n, new, hits


def write_replay(pid, part_name, sig, msg, case):
    rdir = os.path.join(OUT, 'replays', pid)
    os.makedirs(rdir, exist_ok=True)
    name = sig.replace('/', '_').replace(' ', '_')[:80] + f'-{chash(case):016x}.json'
    path = os.path.join(rdir, name)
    with open(path, 'w') as fh:
        json.dump({'property': pid, 'part': part_name, 'signature': sig, 'message': msg,
                   'case': case}, fh, indent=1, sort_keys=True, default=repr)
    return os.path.relpath(path, OUT)


def main(argv):
    if len(argv) < 2:
        print('usage: check <ID> <quick|thorough> | check <ID> --replay <file>', file=sys.stderr)
        return 2
    pid = argv[0].upper()
    t0 = time.time()
    seed = int(os.environ.get('VERIF_SEED', '1') or '1')
    try:
        import_gearpy()
        mod = importlib.import_module(f'vp.props.{pid.lower()}')
    except Exception:
        traceback.print_exc()
        return 2
    findings = load_findings(pid)
    known = {f['sig'] for f in findings}

    if argv[1] == '--replay':
        try:
            n, new, hits = run_replays(mod, 'quick', findings, only=argv[2])
        except Exception:
            traceback.print_exc()
            return 2
        for f in hits:
            print(f'KNOWN-FINDING: property={pid} {f["text"]}')
        for sig, msg, rel in new:
            print(f'VIOLATION property={pid} replay={rel}')
            print(f'  [{sig}] {msg}')
        return 1 if new else 0

    tier = argv[1]
    if tier not in ('quick', 'thorough'):
        print('tier must be quick or thorough', file=sys.stderr)
        return 2
    os.environ['VERIF_TIER'] = tier

    try:
        if hasattr(mod, 'selftest'):
            mod.selftest()
        nrep, new_from_replay, hits = run_replays(mod, tier, findings)
        parts = mod.parts(tier)
    except Exception:
        print('HARNESS ERROR (self-test / replay tier):', file=sys.stderr)
        traceback.print_exc()
        return 2

    total = Stats()
    per_part = {}
    ctx = mp.get_context('fork')
    exhaustive_parts = []
    try:
        with ctx.Pool(NCPU if tier == 'thorough' else min(NCPU, 8)) as pool:
            jobs = []
            for p in parts:
                if p.strategy is not None:
                    nsh = p.shards if tier == 'thorough' else min(p.shards, 4)
                    for s in range(nsh):
                        jobs.append((p.name, pool.apply_async(
                            _run_hyp, (mod.__name__, tier, p.name, seed * 1000 + s, p.examples))))
                else:
                    items = p.enumerate()
                    n_items = sum(1 for _ in items)
                    for lo in range(0, n_items, p.chunk):
                        jobs.append((p.name, pool.apply_async(
                            _run_enum_chunk, (mod.__name__, tier, p.name, lo, lo + p.chunk))))
                    if p.exhaustive:
                        exhaustive_parts.append(p.name)
            for name, j in jobs:
                st = j.get()
                per_part.setdefault(name, Stats()).merge(st)
                total.merge(st)
    except Exception:
        print('HARNESS ERROR (search):', file=sys.stderr)
        traceback.print_exc()
        return 2

    # coverage-guided supplement (atheris / libFuzzer driving the same strategy and checker)
    fuzz_info = {}
    if tier == 'thorough' and os.path.isdir(os.path.join(DEPS, 'atheris')) and not os.environ.get('VERIF_NO_FUZZ'):
        import subprocess
        import tempfile
        procs = []
        tmpd = tempfile.mkdtemp(prefix='vp_fuzz_')
        for p in parts:
            for sh in range(p.fuzz_shards if p.fuzz_runs else 0):
                outf = os.path.join(tmpd, f'{p.name}-{sh}.json')
                cmd = [sys.executable, '-m', 'vp.fuzz.atheris_driver', mod.__name__, p.name, str(p.fuzz_runs),
                       str(seed * 1000 + sh + 1), outf]
                procs.append((p.name, outf, subprocess.Popen(cmd, cwd=VERIF, stdout=subprocess.DEVNULL,
                                                              stderr=subprocess.DEVNULL)))
        for name, outf, pr in procs:
            try:
                pr.wait(timeout=3 * 3600)
            except Exception:
                pr.kill()
            if not os.path.exists(outf):
                fuzz_info.setdefault(name, {'campaigns': 0, 'failed': 0})['failed'] += 1
                continue
            d = json.load(open(outf))
            st = Stats()
            st.evaluations, st.elementary = d['evaluations'], d['elementary']
            st.nontrivial = set(d['nontrivial'])
            st.classes = d['classes']
            st.samples = d['samples'][:1]
            st.viol = {k: (v[0], v[1]) for k, v in d['viol'].items()}
            st.viol_count = d['viol_count']
            st.errors = [(e, None) for e in d['errors']]
            per_part.setdefault(name, Stats()).merge(st)
            total.merge(st)
            fi = fuzz_info.setdefault(name, {'campaigns': 0, 'failed': 0, 'executions': 0})
            fi['campaigns'] += 1
            fi['executions'] = fi.get('executions', 0) + d['evaluations']
        import shutil
        shutil.rmtree(tmpd, ignore_errors=True)

    if total.errors:
        print('HARNESS ERROR: checker raised (not a property verdict):', file=sys.stderr)
        tb, case = total.errors[0]
        print(tb, file=sys.stderr)
        print('case:', canon(case)[:2000], file=sys.stderr)
        return 2

    # pass 2: shrink each new signature, write replays
    out_viol = list(new_from_replay)
    partmap = {p.name: p for p in parts}
    seen_new = {s for s, _, _ in new_from_replay}
    for pname, st in per_part.items():
        for sig, (msg, case) in sorted(st.viol.items()):
            if sig in known or sig in seen_new:
                continue
            seen_new.add(sig)
            if tier == 'thorough' and not os.environ.get('VERIF_NO_SHRINK'):
                case = _shrink(partmap[pname], sig, seed, case)
                res = partmap[pname].check(case)
                msg = next((v.msg for v in res.violations if v.sig == sig), msg)
            rel = write_replay(pid, pname, sig, msg, case)
            out_viol.append((sig, msg, rel))

    known_hits = {s: c for s, c in total.viol_count.items() if s in known}
    wall = time.time() - t0
    ev = {
        'property_id': pid,
        'tier': tier,
        'seed': seed,
        'level': 'exploration',
        'coverage': {
            'evaluations': total.evaluations + nrep,
            'distinct_nontrivial': len(total.nontrivial),
            'rule': mod.RULE,
            'samples': total.samples[:4],
            'exhaustive': bool(exhaustive_parts) and len(exhaustive_parts) == len(parts),
            'exhaustive_parts': exhaustive_parts,
            'replays_run': nrep,
            'elementary_checks': total.elementary,
            'parts': {n: {'evaluations': s.evaluations, 'elementary_checks': s.elementary, 'distinct_nontrivial': len(s.nontrivial),
                          'classes': dict(sorted(s.classes.items()))}
                      for n, s in per_part.items()},
            'coverage_guided_campaigns': fuzz_info,
            'known_finding_hits_in_search': known_hits,
            'known_findings_reproduced': [f['sig'] for f in hits],
            'new_violation_signatures': sorted({s for s, _, _ in out_viol}),
        },
        'assumptions': list(getattr(mod, 'ASSUMPTIONS', [])),
        'wall_s': round(wall, 2),
        'violations': len(out_viol),
    }
    try:
        os.makedirs(os.path.join(OUT, 'evidence'), exist_ok=True)
        with open(os.path.join(OUT, 'evidence', f'{pid}.json'), 'w') as fh:
            json.dump(ev, fh, indent=1, default=repr)
    except Exception:
        traceback.print_exc()
        return 2

    for f in hits:
        print(f'KNOWN-FINDING: property={pid} {f["text"]}')
    for sig, msg, rel in out_viol:
        print(f'VIOLATION property={pid} replay={rel}')
        print(f'  [{sig}] {msg}')
    print(f'{pid} {tier} seed={seed}: evaluations={ev["coverage"]["evaluations"]} '
          f'distinct_nontrivial={len(total.nontrivial)} violations={len(out_viol)} '
          f'known={len(hits)} wall={wall:.1f}s')
    if len(total.nontrivial) < 2 and not out_viol:
        print('HARNESS ERROR: fewer than 2 non-trivial cases generated', file=sys.stderr)
        return 2
    return 1 if out_viol else 0


if __name__ == '__main__':
    sys.exit(main(sys.argv[1:]))
