"""Coverage-guided supplement (thorough tier): drives one Hypothesis-strategy part of a property module with
libFuzzer through atheris (`test.hypothesis.fuzz_one_input`), gearpy.units instrumented. The oracle is the part's own
checker; violations are collected (never raised, so the campaign continues past known findings) and written to a
stats file that the runner merges. Usage: python -m vp.fuzz.atheris_driver <prop-module> <part> <runs> <seed> <out.json>
"""
import json
import os
import sys
import tempfile


def main():
    modname, partname, runs, seed, out = sys.argv[1], sys.argv[2], int(sys.argv[3]), int(sys.argv[4]), sys.argv[5]
    here = os.path.dirname(os.path.dirname(os.path.dirname(os.path.abspath(__file__))))
    sys.path.insert(0, here)
    import vp.runner as R          # sets sys.path for .deps and the package root
    import atheris
    with atheris.instrument_imports(include=['gearpy.units', 'gearpy.units.units', 'gearpy.units.unit_base']):
        R.import_gearpy()
    import importlib
    from hypothesis import given, settings, HealthCheck
    mod = importlib.import_module(modname)
    part = {p.name: p for p in mod.parts('thorough')}[partname]
    st = R.Stats()
    state = {'n': 0}

    def dump():
        with open(out + '.tmp', 'w') as fh:
            json.dump({'evaluations': st.evaluations, 'elementary': st.elementary,
                       'nontrivial': sorted(st.nontrivial), 'classes': st.classes, 'samples': st.samples,
                       'viol': {k: [v[0], v[1]] for k, v in st.viol.items()}, 'viol_count': st.viol_count,
                       'errors': [e[0] for e in st.errors[:3]]}, fh, default=repr)
        os.replace(out + '.tmp', out)

    @settings(deadline=None, database=None, suppress_health_check=list(HealthCheck))
    @given(part.strategy)
    def test(case):
        R._safe_check(part, case, st)
        state['n'] += 1
        if state['n'] % 500 == 0 or state['n'] >= runs:
            dump()

    corpus = tempfile.mkdtemp(prefix='atheris_corpus_')
    dump()
    atheris.Setup([sys.argv[0], f'-runs={runs}', f'-seed={seed if seed else 1}', '-max_len=4096', '-verbosity=0',
                   '-print_final_stats=0', corpus], test.hypothesis.fuzz_one_input)
    try:
        atheris.Fuzz()
    finally:
        dump()


if __name__ == '__main__':
    main()
