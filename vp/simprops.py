"""Common driver for the trace-invariant properties: simulate a case, derive per-instant step sizes,
hand the final trace of every history segment to the property's invariant."""
from __future__ import annotations

import numpy as np

from vp.runner import Result
from vp.oracle import units_si as U
from vp import sim as S
from vp import invariants as I

BY_DESIGN = (ValueError, TypeError)


def segments(case, traces, with_init=False, with_pwm=False):
    """[(trace, dts)] (or [(trace, dts, init)]) one per 'epoch' (between resets), using the last trace of each epoch;
    dts[k] = requested dt (s) of the run that produced instant k; init = the initial conditions of that epoch."""
    out = []
    dts = [None]
    n_prev = 0
    last_tr = None
    ti = 0
    init = case['init']
    hand = {}            # instant index -> duty cycle set by hand just before that instant was computed
    for op in case['history']:
        if ti >= len(traces):
            break
        tr = traces[ti]
        ti += 1
        if op['op'] == 'run':
            dt = U.si('TimeInterval', *op['dt'])
            if n_prev == 0:
                dts = [None] + [dt] * (tr.n - 1)
            else:
                dts = dts + [dt] * (tr.n - n_prev)
            n_prev = tr.n
            last_tr = tr
        elif op['op'] == 'set_pwm':
            hand[n_prev] = op['value']
        elif op['op'] == 'reset':
            if last_tr is not None:
                out.append(_seg(last_tr, dts, init, hand, with_init, with_pwm))
            dts, n_prev, last_tr = [None], 0, None
            init = op.get('init') or case['init']
            hand = {}
    if last_tr is not None:
        out.append(_seg(last_tr, dts, init, hand, with_init, with_pwm))
    return out


def _seg(tr, dts, init, hand, with_init, with_pwm):
    if with_pwm:
        return tr, dts, init, dict(hand)
    return (tr, dts, init) if with_init else (tr, dts)


def simulate_checked(case, res: Result, pid):
    """simulate; classify by-design rejections; returns (built, traces) or None"""
    try:
        b, traces, err = S.simulate(case)
    except Exception as e:  # noqa  (construction / declaration refused the model)
        res.classes += (f'build-rejected:{type(e).__name__}',)
        res.hist['build-rejected'] = 1
        res.build_error = e
        return None
    if err is not None:
        res.classes += (f'run-raised:{type(err).__name__}',)
        res.run_error = err
        if not by_design(err):
            # the model is valid by construction: a run that raises cannot satisfy a per-instant property
            res.bad(f'{pid}/run-raises/{type(err).__name__}', f'simulation of a valid model raised '
                    f'{type(err).__name__}: {err}')
    return b, traces, err


def by_design(err) -> bool:
    """documented refusals that a valid-model generator may still hit"""
    s = str(err)
    return isinstance(err, ValueError) and ("misses 'module'" in s or "misses 'elastic_modulus'" in s
                                            or 'Gear mating not defined' in s)
