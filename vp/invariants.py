"""Trace invariants shared by the simulation properties (C01, C02, C03, C13)."""
from __future__ import annotations

import math

import numpy as np

from vp.oracle import motor as MO
from vp import model as M

EPS = 2.0 ** -52
MUL_TOL = 1e-9


def mul_close(x, y, tol=MUL_TOL, floor=0.0):
    return abs(x - y) <= tol * max(abs(x), abs(y)) + floor


def add_close(z, a, b, info=None):
    """z == a + b up to rounding of the addition (info: magnitude of the term that must stay visible)"""
    return abs(z - (a + b)) <= 64 * EPS * (abs(a) + abs(b)) + (1e-9 * abs(info) if info is not None else 0.0) + 1e-300


def finite_trace(tr):
    if not np.all(np.isfinite(tr.t)):
        return False
    for d in tr.vars:
        for arr in d.values():
            if arr is not None and not np.all(np.isfinite(arr)):
                return False
    return True


def complete(tr):
    """every base variable has one sample per instant (C17 judges this; other checkers just need it)"""
    for ln in tr.lens:
        for var in ('angular position', 'angular speed', 'angular acceleration', 'torque', 'driving torque',
                    'load torque'):
            if ln.get(var) != tr.n:
                return False
    return tr.kinds_ok and 'pwm' in tr.lens[0] and tr.lens[0]['pwm'] == tr.n


# ---------------------------------------------------------------------------------------
def kinematic_coupling(mdl: M.Model, tr, out, pid='C01'):
    """X_i[k] = r_{i+1} X_{i+1}[k] for position, speed, acceleration, every instant, every pair"""
    n_checked = 0
    for i in range(mdl.n - 1):
        r = mdl.ratios[i + 1]
        for var in ('angular position', 'angular speed', 'angular acceleration'):
            up, down = tr.get(i, var), tr.get(i + 1, var)
            exp = r * down
            bad = np.nonzero(~(np.abs(up - exp) <= MUL_TOL * np.maximum(np.abs(up), np.abs(exp)) + 1e-300))[0]
            n_checked += len(up)
            if len(bad):
                k = int(bad[0])
                out.append((f'{pid}/{var.replace(" ", "-")}/pair',
                            f'instant {k} (t={tr.t[k]!r}): element {i} {var} = {up[k]!r}, expected '
                            f'{r!r} x element {i + 1} ({down[k]!r}) = {exp[k]!r}; {len(bad)} instants, '
                            f'link {mdl.elements[i + 1]["link"]}'))
    return n_checked


# ---------------------------------------------------------------------------------------
def torque_balance(mdl: M.Model, tr, out, pid='C02'):
    n = tr.n
    w_m = tr.get(0, 'angular speed')
    pwm = tr.get(0, 'pwm')
    drive = [tr.get(i, 'driving torque') for i in range(mdl.n)]
    load = [tr.get(i, 'load torque') for i in range(mdl.n)]
    net = [tr.get(i, 'torque') for i in range(mdl.n)]
    # (a) motor characteristic at the recorded speed and duty cycle
    for k in range(n):
        Te = MO.torque(w_m[k], pwm[k], mdl.Tmax, mdl.w0, mdl.i0, mdl.imax)
        sc = MO.scale(w_m[k], pwm[k], mdl.w0) if mdl.i0 is not None else 1 + abs(w_m[k] / mdl.w0)
        if not abs(drive[0][k] - Te) <= 1e-9 * mdl.Tmax * sc:
            out.append((f'{pid}/motor-characteristic',
                        f'instant {k}: motor driving torque {drive[0][k]!r}, characteristic at speed {w_m[k]!r} '
                        f'rad/s and duty cycle {pwm[k]!r} gives {Te!r}'))
            break
    # (b) downstream propagation of the driving torque
    for i in range(1, mdl.n):
        f = mdl.etas[i] * mdl.ratios[i]
        exp = drive[i - 1] * f
        bad = np.nonzero(~(np.abs(drive[i] - exp) <= MUL_TOL * np.maximum(np.abs(drive[i]), np.abs(exp)) + 1e-300))[0]
        if len(bad):
            k = int(bad[0])
            out.append((f'{pid}/driving-torque-propagation',
                        f'instant {k}: element {i} driving torque {drive[i][k]!r}, expected driver\'s '
                        f'{drive[i - 1][k]!r} x eta {mdl.etas[i]!r} x ratio {mdl.ratios[i]!r} = {exp[k]!r}'))
            break
    # (c) external load evaluated at the recorded position, speed and time of that instant
    th, w = tr.get(mdl.n - 1, 'angular position'), tr.get(mdl.n - 1, 'angular speed')
    ld = mdl.case['load']
    scale = abs(ld['c0']) + abs(ld['csin']) + abs(ld['ct'])
    for k in range(n):
        Le = M.load_si(ld, tr.t[k], th[k], w[k])
        tol = 1e-9 * (abs(Le) + scale + abs(ld['cw'] * w[k])) + 1e-300
        if ld.get('csin'):
            tol += abs(ld['csin'] * ld['kpos']) * 4 * EPS * abs(th[k]) * 8      # sin of a rounded large angle
        if not abs(load[-1][k] - Le) <= tol:
            out.append((f'{pid}/external-load',
                        f'instant {k}: load torque of the last element {load[-1][k]!r}, load function at recorded '
                        f't={tr.t[k]!r}, theta={th[k]!r}, omega={w[k]!r} gives {Le!r}'))
            break
    # (c') a second external load carried by an intermediate element: that element's load torque is its own function
    l2 = mdl.case.get('load2')
    if l2:
        j = l2['at']
        thj, wj = tr.get(j, 'angular position'), tr.get(j, 'angular speed')
        sc2 = abs(l2['c0']) + abs(l2['csin']) + abs(l2['ct'])
        for k in range(n):
            Le = M.load_si(l2, tr.t[k], thj[k], wj[k])
            if not abs(load[j][k] - Le) <= 1e-9 * (abs(Le) + sc2 + abs(l2['cw'] * wj[k])) + 1e-300:
                out.append((f'{pid}/external-load/intermediate-element',
                            f'instant {k}: load torque of element {j} (carrying its own external load) {load[j][k]!r}, its '
                            f'load function at the recorded state gives {Le!r}'))
                break
    # (d) upstream propagation of the load torque
    for i in range(mdl.n - 1, 0, -1):
        if l2 and i - 1 == l2['at']:
            continue                     # element i-1 carries its own external load
        exp = load[i] / mdl.etas[i] / mdl.ratios[i]
        bad = np.nonzero(~(np.abs(load[i - 1] - exp) <= MUL_TOL * np.maximum(np.abs(load[i - 1]), np.abs(exp)) + 1e-300))[0]
        if len(bad):
            k = int(bad[0])
            out.append((f'{pid}/load-torque-propagation',
                        f'instant {k}: element {i - 1} load torque {load[i - 1][k]!r}, expected follower\'s '
                        f'{load[i][k]!r} / eta {mdl.etas[i]!r} / ratio {mdl.ratios[i]!r} = {exp[k]!r}'))
            break
    # (e) net = driving - load
    for i in range(mdl.n):
        bad = [k for k in range(n) if not add_close(net[i][k], drive[i][k], -load[i][k])]
        if bad:
            k = bad[0]
            out.append((f'{pid}/net-torque',
                        f'instant {k}: element {i} net torque {net[i][k]!r}, driving {drive[i][k]!r} - load '
                        f'{load[i][k]!r} = {drive[i][k] - load[i][k]!r}'))
            break
    return n * (2 + 3 * mdl.n)


# ---------------------------------------------------------------------------------------
def held_instants(mdl: M.Model, tr):
    """instants at which every recorded speed and acceleration is exactly zero"""
    z = np.ones(tr.n, dtype=bool)
    for i in range(mdl.n):
        z &= (tr.get(i, 'angular speed') == 0) & (tr.get(i, 'angular acceleration') == 0)
    return z


def equation_of_motion(mdl: M.Model, tr, dts, out, pid='C03', init_speed=None):
    """dts[k] = requested step (s) used to reach instant k (k >= 1); None where unknown (first instant)"""
    last = mdl.n - 1
    a = tr.get(last, 'angular acceleration')
    w = tr.get(last, 'angular speed')
    th = tr.get(last, 'angular position')
    net = tr.get(last, 'torque')
    held = held_instants(mdl, tr)
    can_hold = mdl.self_locking or mdl.locking_ambiguous
    n_acc = 0
    for k in range(tr.n):
        exp = net[k] / mdl.J_eq
        if mul_close(a[k], exp, floor=1e-300):
            n_acc += 1 if a[k] != 0 else 0
            continue
        if can_hold and held[k]:
            continue
        out.append((f'{pid}/acceleration',
                    f'instant {k}: last element acceleration {a[k]!r}, net torque {net[k]!r} / equivalent inertia '
                    f'{mdl.J_eq!r} = {exp!r}' + ('' if can_hold else ' (powertrain is not self-locking)')))
        break
    for k in range(1, tr.n):
        dt = dts[k]
        if dt is None:
            continue
        wstar = w[k - 1] + a[k - 1] * dt
        inc = a[k - 1] * dt
        ok_speed = abs(w[k] - wstar) <= 64 * EPS * (abs(w[k - 1]) + abs(inc)) + 1e-9 * abs(inc) + 1e-300
        if not ok_speed and not (can_hold and w[k] == 0):
            out.append((f'{pid}/speed-update',
                        f'instant {k}: speed {w[k]!r}, expected previous {w[k - 1]!r} + acceleration {a[k - 1]!r} '
                        f'x dt {dt!r} = {wstar!r}'))
            break
        pinc = wstar * dt
        # the advanced speed carries the rounding of its own update (visible when w[k-1] and a[k-1] dt cancel)
        werr = 64 * EPS * (abs(w[k - 1]) + abs(inc))
        if not abs(th[k] - (th[k - 1] + pinc)) <= 64 * EPS * (abs(th[k - 1]) + abs(pinc)) + 1e-9 * abs(pinc) + werr * dt + 1e-300:      # (1e-300: subnormal results have no relative precision)
            out.append((f'{pid}/position-update',
                        f'instant {k}: position {th[k]!r}, expected previous {th[k - 1]!r} + advanced speed '
                        f'{wstar!r} x dt {dt!r} = {th[k - 1] + pinc!r}'))
            break
    return n_acc


# ---------------------------------------------------------------------------------------
def lock_machine(mdl: M.Model, tr, dts, pwm0, w_init, out, pid='C13', start=0, held_prev=False, hand=None):
    """Replays the documented lock decisions over the recorded values.
    Returns (held flags, ambiguous count)."""
    last = mdl.n - 1
    R = mdl.cum_ratio(0)
    a = tr.get(last, 'angular acceleration')
    w = tr.get(last, 'angular speed')
    wm = tr.get(0, 'angular speed')
    tq = tr.get(0, 'torque')
    pwm = tr.get(0, 'pwm')
    th = [tr.get(i, 'angular position') for i in range(mdl.n)]
    zero = held_instants(mdl, tr)
    held = np.zeros(tr.n, dtype=bool)
    amb = 0
    uncertain = False
    scale_w = max(mdl.w0, float(np.max(np.abs(wm))) if tr.n else 0.0)
    for k in range(start, tr.n):
        D = pwm0 if k == 0 else pwm[k - 1]
        if hand and k in hand:
            D = hand[k]               # set by hand between two runs: that is the duty cycle in force now
        if k == 0:
            wstar_m = R * w_init
        else:
            dt = dts[k]
            wstar_m = R * (w[k - 1] + a[k - 1] * dt)
        tprev = None if k == 0 else tq[k - 1]
        # the sign of the advanced speed is what the lock condition reads. It is exact - however small the value -
        # unless the two terms cancel (opposite signs, sum within 1e-9 of them) or the value sits at the floor of the
        # float range
        if k == 0 or w[k - 1] * a[k - 1] >= 0:
            near = wstar_m != 0 and abs(wstar_m) <= 1e-280
        else:
            near = wstar_m != 0 and (abs(wstar_m) <= 1e-280 or
                                     abs(wstar_m) <= 1e-9 * R * max(abs(w[k - 1]), abs(a[k - 1] * dts[k])))
        lockcond = mdl.self_locking and (D == 0 or (D > 0 and wstar_m < 0) or (D < 0 and wstar_m > 0))
        release = tprev is not None and ((tprev > 0 and D > 0) or (tprev < 0 and D < 0))
        near_t = tprev is not None and tprev != 0 and abs(tprev) <= 1e-9 * mdl.Tmax
        prev = held_prev if k == start else held[k - 1]
        if mdl.locking_ambiguous or near or (near_t and prev and not lockcond):
            amb += 1
            held[k] = zero[k]
            # all speeds and accelerations zero after a decision too close to call: the drive is either held or
            # exactly at rest in equilibrium - the two cannot be told apart from the record
            uncertain = bool(zero[k])
            continue
        if uncertain:
            if lockcond:
                uncertain = False            # an unambiguous lock condition: held from here on
            elif not zero[k]:
                uncertain = False            # it moves: it was not held
                held[k] = False
                continue
            else:
                amb += 1
                held[k] = True
                continue
        h = bool(lockcond or (prev and not release))
        held[k] = h
        # safety invariant on the motor speed
        if mdl.self_locking:
            if (D == 0 and wm[k] != 0) or (D > 0 and wm[k] < 0) or (D < 0 and wm[k] > 0):
                out.append((f'{pid}/driven-by-load',
                            f'instant {k}: duty cycle in force {D!r} but motor speed {wm[k]!r} rad/s'))
                return held, amb
        if h:
            if not zero[k]:
                out.append((f'{pid}/held-but-moving',
                            f'instant {k}: powertrain must be held (duty cycle in force {D!r}, advanced motor speed '
                            f'{wstar_m!r}, previous motor net torque {tprev!r}, held before: {prev}) but speeds / '
                            f'accelerations are not all zero (motor speed {wm[k]!r}, last acceleration {a[k]!r})'))
                return held, amb
            if k > start and held[k - 1] and any(th[i][k] != th[i][k - 1] for i in range(mdl.n)):
                out.append((f'{pid}/held-position-drifts',
                            f'instant {k}: held at two consecutive instants but a position changed'))
                return held, amb
        else:
            exp_w = wstar_m / R
            if not abs(w[k] - exp_w) <= 1e-9 * max(abs(exp_w), abs(w[k])) + 64 * EPS * scale_w / R:
                what = 'clamped-without-self-locking' if not mdl.self_locking else 'clamped-while-free'
                out.append((f'{pid}/{what}',
                            f'instant {k}: not held (duty cycle in force {D!r}, advanced motor speed {wstar_m!r}, '
                            f'previous motor net torque {tprev!r}, held before: {prev}) but recorded speed {w[k]!r} '
                            f'differs from the advanced speed {exp_w!r}'))
                return held, amb
            if prev and a[k] != 0 and not release:
                out.append((f'{pid}/resumed-without-release', f'instant {k}: motion resumed without release'))
                return held, amb
    return held, amb
