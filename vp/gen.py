"""Hypothesis strategies for valid simulation cases (construction, not filtering)."""
from __future__ import annotations

import math

from hypothesis import strategies as st

from vp.oracle import units_si as U
from vp.oracle import relations as R
from vp.oracle import gears as G
from vp import model as M


def qty(kind, si_value, unit):
    return [si_value / U.factor_f(kind, unit), unit]


def s_unit(kind):
    return st.sampled_from(list(U.UNITS[kind]))


def s_mag(lo, hi):
    """m * 10**e with e in [lo, hi)"""
    return st.builds(lambda m, e: m * 10.0 ** e, st.floats(1, 10, exclude_max=True), st.integers(lo, hi - 1))


def s_qty(draw, kind, si_strategy):
    return qty(kind, draw(si_strategy), draw(s_unit(kind)))


WORM_LIMIT = {k: v[0] for k, v in G.WORM.items()}


@st.composite
def s_motor(draw, currents=None):
    m = {'J': s_qty(draw, 'InertiaMoment', s_mag(-7, -3)),
         'w0': s_qty(draw, 'AngularSpeed', s_mag(1, 4)),
         'tmax': s_qty(draw, 'Torque', s_mag(-3, 1)),
         'pwm0': 1}
    has = draw(st.integers(0, 3)) > 0 if currents is None else currents
    if has:
        imax = draw(s_mag(-1, 2))
        f = draw(st.one_of(st.floats(0.01, 0.5), st.sampled_from([0.0, 0.1, 0.25])))
        m['imax'] = qty('Current', imax, draw(s_unit('Current')))
        m['i0'] = qty('Current', imax * f, draw(s_unit('Current')))
    else:
        m['i0'] = m['imax'] = None
    return m


def _requal(pair, kind, draw, allow=True):
    """the same magnitude, possibly re-expressed in another unit"""
    if not allow or draw(st.booleans()):
        return list(pair)
    u = draw(s_unit(kind))
    if u == pair[1]:
        return list(pair)          # same unit: the library compares exactly, keep the identical number
    return qty(kind, U.si(kind, *pair), u)


@st.composite
def s_chain(draw, min_len=1, max_len=6, worm='maybe', locking=None, optional_data=True, requal=True):
    """chain of 1..max_len elements after the motor; worm: 'no' | 'maybe' | 'yes'"""
    n = draw(st.integers(min_len, max_len))
    chain = []
    prev = {'type': 'motor'}
    want_worm = worm == 'yes' or (worm == 'maybe' and draw(st.integers(0, 2)) == 0)
    worm_done = False
    i = 0
    while i < n or chain[-1]['type'] not in ('spur', 'helical', 'wheel') or (want_worm and not worm_done):
        pt = prev['type']
        options = ['joint']
        if pt == 'spur':
            options += ['gear', 'gear']
        elif pt == 'helical':
            options += ['gear', 'gear']
        elif pt in ('worm', 'wheel'):
            options += ['worm', 'worm', 'worm']
        if pt == 'worm' and prev['link']['kind'] == 'worm':
            # a worm driven by its wheel passes the motion on through its shaft (a second mating of the same worm would
            # re-decide its single self-locking flag: which declaration counts is not specified)
            options = ['joint']
        elif pt == 'worm' and (i >= n - 1):
            options = ['worm']            # a worm gear cannot carry the load: close with its wheel
        kind = draw(st.sampled_from(options))
        J = s_qty(draw, 'InertiaMoment', s_mag(-8, -3))
        if kind == 'gear':
            el = {'type': pt, 'n_teeth': prev['n_teeth'] if draw(st.integers(0, 7)) == 0 else draw(st.integers(10, 80)),
                  'J': J,
                  'link': {'kind': 'gear', 'eta': draw(st.one_of(st.floats(0.5, 1.0), st.sampled_from([1, 1.0, 0.9])))}}
            if pt == 'helical':
                el['helix'] = _requal(prev['helix'], 'Angle', draw, requal)
        elif kind == 'worm':
            alpha = U.si('Angle', *prev['pressure'])
            beta = U.si('Angle', *prev['helix'])
            crit = math.cos(alpha) * math.tan(beta)
            worm_master = pt == 'worm'
            if worm_master:
                side = locking if locking is not None else draw(st.booleans())
                if side:
                    f = min(1.0, crit * (1 + draw(st.floats(0.01, 1.0))))
                    if not f > crit * 1.001:
                        f = None
                else:
                    f = crit * (1 - draw(st.floats(0.01, 0.99)))
                if f is None or not (0 < R.worm_efficiency(True, alpha, beta, f) <= 1):
                    f = crit * 0.5
            else:
                f = crit * draw(st.floats(0.01, 0.9))      # a wheel can only drive a non-self-locking worm
            el = {'J': J, 'link': {'kind': 'worm', 'f': f}, 'helix': _requal(prev['helix'], 'Angle', draw, requal),
                  'pressure': list(prev['pressure'])}
            if not worm_master and locking is not False and requal and draw(st.integers(0, 1)) == 0:
                # ... unless the worm's own helix is smaller than the wheel's (the API accepts it): the efficiency
                # follows the wheel's helix, the self-locking criterion the worm's
                bw = beta * draw(st.floats(0.05, 0.5))
                el['helix'] = qty('Angle', bw, draw(s_unit('Angle')))
                el['link']['f'] = min(1.0, max(math.cos(alpha) * math.tan(bw) * 1.5, crit * 0.3))
                if not (el['link']['f'] < crit * 0.95 and el['link']['f'] > math.cos(alpha) * math.tan(bw) * 1.01):
                    el['helix'] = _requal(prev['helix'], 'Angle', draw, requal)
                    el['link']['f'] = f
            if draw(st.integers(0, 4)) == 0:
                # the same pair was declared before with other friction coefficients (either side of the criterion)
                el['link']['f_prev'] = draw(st.lists(st.sampled_from([0.01, 0.05, 0.3, 0.6, 0.9, 1.0]), min_size=1,
                                                     max_size=2))
            if worm_master:
                el.update(type='wheel', n_teeth=draw(st.integers(10, 80)))
            else:
                el.update(type='worm', n_starts=draw(st.integers(1, 4)))
            worm_done = True
        else:
            choices = ['flywheel', 'spur', 'spur', 'helical', 'helical']
            if worm != 'no':
                choices += ['worm', 'wheel'] if not want_worm or worm_done else ['worm', 'worm', 'wheel', 'wheel', 'worm']
            t = draw(st.sampled_from(choices))
            el = {'type': t, 'J': J, 'link': {'kind': 'joint'}}
            if t == pt and t == 'spur' and draw(st.integers(0, 3)) == 0:
                el['link']['first_mated'] = True
            if t in ('spur', 'helical', 'wheel'):
                el['n_teeth'] = draw(st.integers(10, 80))
            if t == 'helical':
                el['helix'] = s_qty(draw, 'Angle', st.floats(0.0, 1.2))
            if t == 'worm':
                el['n_starts'] = draw(st.integers(1, 4))
            if t in ('worm', 'wheel'):
                pa = draw(st.sampled_from(list(WORM_LIMIT)))
                el['pressure'] = [pa, 'deg']
                lim = math.radians(WORM_LIMIT[pa])
                el['helix'] = s_qty(draw, 'Angle', st.floats(0.03, lim * 0.98))
        chain.append(el)
        prev = el
        i += 1
        if i > max_len + 6:
            break
    if chain[-1]['type'] not in ('spur', 'helical', 'wheel'):
        chain.append({'type': 'spur', 'n_teeth': 20, 'J': qty('InertiaMoment', 1e-5, 'kgm^2'),
                      'link': {'kind': 'joint'}})
    if optional_data:
        _add_optional_data(draw, chain, requal)
    return chain


def _add_optional_data(draw, chain, requal=True):
    """module / face width / modulus / worm diameter, respecting the library's by-design preconditions:
    a gear with a module must take part in a mating; full contact data needs a mate with module and modulus."""
    n = len(chain)

    def mated(i):
        up = chain[i]['link']['kind'] in ('gear', 'worm')
        down = i + 1 < n and chain[i + 1]['link']['kind'] in ('gear', 'worm')
        return up, down
    # modules per mating group (consecutive gear links share one module)
    i = 0
    while i < n:
        el = chain[i]
        up, down = mated(i)
        if el['type'] in ('spur', 'helical') and (up or down):
            if up and chain[i - 1].get('module') is not None and draw(st.integers(0, 4)) > 0:
                el['module'] = _requal(chain[i - 1]['module'], 'Length', draw, requal)
            elif not up or chain[i - 1].get('module') is None:
                if draw(st.integers(0, 2)) > 0:
                    el['module'] = s_qty(draw, 'Length', s_mag(-4, -2))
            if el.get('module') is not None and draw(st.integers(0, 3)) > 0:
                el['face_width'] = s_qty(draw, 'Length', s_mag(-3, -1))
            if draw(st.integers(0, 2)) > 0:
                el['E'] = s_qty(draw, 'Stress', s_mag(9, 12))
        elif el['type'] == 'wheel' and (up or down):
            if draw(st.integers(0, 2)) > 0:
                el['module'] = s_qty(draw, 'Length', s_mag(-4, -2))
                if draw(st.integers(0, 3)) > 0:
                    el['face_width'] = s_qty(draw, 'Length', s_mag(-3, -1))
        elif el['type'] == 'worm' and (up or down):
            if draw(st.integers(0, 2)) > 0:
                el['ref_diameter'] = s_qty(draw, 'Length', s_mag(-3, -1))
        i += 1
    # repair: contact stress needs the role-mate's module and modulus (role = master of the downstream mating
    # if there is one, else slave of the upstream one). Deletions only, iterated to a fixpoint.
    changed = True
    while changed:
        changed = False
        for i, el in enumerate(chain):
            if el['type'] not in ('spur', 'helical'):
                continue
            if not (el.get('module') and el.get('face_width') and el.get('E')):
                continue
            up, down = mated(i)
            mate = chain[i + 1] if down else (chain[i - 1] if up else None)
            if mate is None or mate['type'] not in ('spur', 'helical') or not mate.get('module') \
                    or not mate.get('E'):
                del el['E']
                changed = True


def s_load(draw, mdl: M.Model, kinds=('const', 'speed', 'pos', 'time')):
    stall, noload = mdl.stall_out, mdl.noload_out
    u = draw(st.one_of(st.floats(-0.5, 0.9), st.floats(-3, 3), st.sampled_from([0.0, 0.5, 1.5, -1.0])))
    load = {'c0': stall * u, 'cw': 0.0, 'csin': 0.0, 'kpos': 1.0, 'ct': 0.0, 'period': 1.0,
            'unit': draw(s_unit('Torque'))}
    if draw(st.integers(0, 3)) == 0:
        load['numpy'] = True
    if 'speed' in kinds and draw(st.booleans()):
        load['cw'] = stall / noload * draw(st.floats(0, 0.5))
    if 'pos' in kinds and draw(st.booleans()):
        load['csin'] = stall * draw(st.floats(0.01, 0.4))
        # keep the position-dependent term soft (csin * kpos * dt^2 / J_eq <= 0.1 at dt = 1/k): otherwise the
        # discrete map is chaotic and metamorphic comparisons (C07, C12) are ill-conditioned
        kmax = 0.1 * mdl.J_eq * mdl.k ** 2 / load['csin']
        load['kpos'] = min(draw(st.floats(0.1, 10)), kmax)
        if draw(st.booleans()):
            load['lib_trig'] = True
    if 'time' in kinds and draw(st.booleans()):
        load['ct'] = stall * draw(st.floats(0.01, 0.4))
        load['period'] = draw(st.floats(2, 50)) / mdl.k
    return load


def s_init(draw, mdl: M.Model, at_rest=None):
    pos = draw(st.one_of(st.floats(-100, 100), st.sampled_from([0.0])))
    rest = draw(st.integers(0, 2)) == 0 if at_rest is None else at_rest
    speed = 0.0 if rest else mdl.noload_out * draw(st.floats(-0.5, 1.2))
    return {'pos': qty('AngularPosition', pos, draw(s_unit('AngularPosition'))),
            'speed': qty('AngularSpeed', speed, draw(s_unit('AngularSpeed')))}


def s_run(draw, mdl: M.Model, min_steps=3, max_steps=40, c=(0.02, 1.2), same_unit=None, nonmultiple=False):
    dt_si = draw(st.floats(*c)) / mdl.k
    n = draw(st.integers(min_steps, max_steps))
    u = draw(s_unit('TimeInterval'))
    dt = qty('TimeInterval', dt_si, u)
    same = draw(st.booleans()) if same_unit is None else same_unit
    # a duration that is not a multiple of the step is rounded up by the solver to n steps, all dt apart
    frac = draw(st.floats(0.1, 0.9)) if nonmultiple and draw(st.integers(0, 4)) == 0 else 0.0
    if same:
        T = [dt[0] * (n - frac), u]
    else:
        u2 = draw(s_unit('TimeInterval'))
        T = qty('TimeInterval', dt_si * (n - frac), u2)
    return {'op': 'run', 'dt': dt, 'T': T, 'steps': n}


def add_variants(draw, case):
    """options that do not change the physical model (every oracle stays as it is): a decoy powertrain with its own
    Solver / control / sensors, a deep copy of the assembled powertrain, parameters re-expressed in place"""
    if draw(st.integers(0, 3)) == 0:
        case['decoy'] = True
    if draw(st.integers(0, 7)) == 0:
        case['deepcopy'] = True
    if draw(st.integers(0, 5)) == 0:
        n_el = len(case['chain']) + 1
        kinds = {'inertia_moment': 'InertiaMoment', 'no_load_speed': 'AngularSpeed', 'maximum_torque': 'Torque',
                 'no_load_electric_current': 'Current', 'maximum_electric_current': 'Current',
                 'face_width': 'Length', 'elastic_modulus': 'Stress', 'reference_diameter': 'Length'}
        # (not the module: it takes part in compatibility checks when a mating is declared again, and a value re-expressed
        # into the partner's unit may sit an ulp away where comparisons are exact; C09 and C10 re-express it under control)
        rx = []
        for _ in range(draw(st.integers(1, 3))):
            a_ = draw(st.sampled_from(sorted(kinds)))
            i_ = 0 if a_ in ('no_load_speed', 'maximum_torque', 'no_load_electric_current', 'maximum_electric_current') \
                else draw(st.integers(0, n_el - 1))
            if not any(r[0] == i_ and r[1] == a_ for r in rx):      # one conversion per quantity: a round trip back into
                rx.append([i_, a_, draw(s_unit(kinds[a_]))])        # the partner's unit may move the value by an ulp
        case['reexpress'] = rx


@st.composite
def s_case(draw, max_len=6, worm='maybe', locking=None, histories=('run', 'run+continue', 'reset+rerun'),
           load_kinds=('const', 'speed', 'pos', 'time'), currents=None, max_steps=40, nonmultiple=False):
    case = {'motor': draw(s_motor(currents=currents)),
            'chain': draw(s_chain(max_len=max_len, worm=worm, locking=locking))}
    mdl = M.Model(case)
    case['load'] = s_load(draw, mdl, load_kinds)
    case['init'] = s_init(draw, mdl)
    add_variants(draw, case)
    h = draw(st.sampled_from(list(histories)))
    run1 = s_run(draw, mdl, max_steps=max_steps, nonmultiple=nonmultiple)
    if h == 'run':
        case['history'] = [run1]
    elif h == 'run+continue':
        run2 = s_run(draw, mdl, max_steps=max(3, max_steps // 2), nonmultiple=nonmultiple)
        if draw(st.integers(0, 3)) == 0:
            run2['new_solver'] = True            # e.g. a helper that does Solver(powertrain).run(...) to continue
        case['history'] = [run1, run2]
    else:
        reset = {'op': 'reset', 'reinit': True}
        if draw(st.booleans()):
            reset['init'] = s_init(draw, mdl)            # rerun from other initial conditions
        case['history'] = [run1, reset, dict(run1, new_solver=draw(st.booleans()))]
    return case


def s_constant_rules(draw, horizon_si, max_rules=3, values=None):
    """0..max_rules ConstantPWM rules with pairwise disjoint windows inside [0, 1.2 * horizon]"""
    n = draw(st.integers(0, max_rules))
    if n == 0:
        return []
    # cuts on a 1/1000 lattice of the horizon: two windows are separated by at least 1e-4 of the horizon, far above
    # the comparison tolerance of the library
    cuts = sorted(c / 1000.0 for c in draw(st.lists(st.integers(0, 1200), min_size=2 * n, max_size=2 * n, unique=True)))
    vals = values if values is not None else st.one_of(st.floats(-1, 1), st.sampled_from([0, 0.0, 1, -1, 0.5, -0.5, 0.3]))
    rules = []
    for j in range(n):
        a, b_ = cuts[2 * j] * horizon_si, cuts[2 * j + 1] * horizon_si
        if not b_ > a:
            continue
        # leave a gap so that two windows never share an instant
        dur = (b_ - a) * 0.9
        if not dur > 0:
            continue
        rules.append({'rule': 'constant', 'start': qty('Time', a, draw(s_unit('Time'))),
                      'duration': qty('TimeInterval', dur, draw(s_unit('TimeInterval'))),
                      'value': _duty(draw(vals))})
    return rules


def _duty(v):
    """duty cycles below 1e-6 in magnitude are snapped to 0 (D * w0 underflows for subnormal D: outside any
    meaningful use, see C08)"""
    return 0.0 if isinstance(v, float) and 0 < abs(v) < 1e-6 else v


def horizon(case):
    """total simulated time (s) of the first epoch of the history"""
    h = 0.0
    for op in case['history']:
        if op['op'] == 'run':
            h += U.si('TimeInterval', *op['T'])
        else:
            break
    return h


@st.composite
def s_case_controlled(draw, **kw):
    """valid case whose runs are driven by disjoint ConstantPWM windows (duty-cycle histories)"""
    case = draw(s_case(**kw))
    if case['motor'].get('i0') is not None and draw(st.integers(0, 4)) == 0:
        case['motor']['pwm0'] = draw(st.sampled_from([1, 0.5, -1, 0, -0.4, 0.8]))
    rules = s_constant_rules(draw, horizon(case))
    if rules:
        case['control'] = rules
        runs = [op for op in case['history'] if op['op'] == 'run']
        for op in runs:
            op['control'] = True
        if len(runs) == 2 and case['history'][1]['op'] == 'run' and draw(st.integers(0, 3)) == 0:
            # the motor control is handed to only one of the two runs of a continued simulation
            runs[draw(st.integers(0, 1))]['control'] = False
    return case
