"""Case -> gearpy simulation (public API only) -> SI traces."""
from __future__ import annotations

import numpy as np

from vp.oracle import units_si as U
from vp import build as B
from vp import model as M

VAR_KIND = {'angular position': 'AngularPosition', 'angular speed': 'AngularSpeed',
            'angular acceleration': 'AngularAcceleration', 'torque': 'Torque', 'driving torque': 'Torque',
            'load torque': 'Torque', 'tangential force': 'Force', 'bending stress': 'Stress',
            'contact stress': 'Stress', 'electric current': 'Current'}
ALL_VARS = list(VAR_KIND) + ['pwm']


def to_si(obj) -> float:
    k = type(obj).__name__
    return obj.value * U.factor_f(k, obj.unit)


class Built:
    pass


class StubRule:
    """a RuleBase returning generated values (cycled), for arbitration checks"""

    def __new__(cls, values):
        from gearpy.motor_control.rules.rules_base import RuleBase

        class _Stub(RuleBase):
            def __init__(self, values):
                self.values = list(values)
                self.calls = 0

            def apply(self):
                v = self.values[self.calls % len(self.values)]
                self.calls += 1
                return v
        return _Stub(values)


def build(case, reuse=None) -> Built:
    """reuse = {element index: an element object from an earlier life} (a gear train kept while the drive is changed)"""
    import gearpy.utils as gu
    from gearpy.powertrain import Powertrain
    b = Built()
    b.case = case
    b.model = M.Model(case)
    specs = b.model.elements
    names = [s.get('name') or f'{s["type"]}{i}' for i, s in enumerate(specs)]
    b.names = names
    reuse = reuse or {}
    b.elements = [reuse[i] if i in reuse else B.make_element(s, names[i] + ('b' if reuse else '')) for i, s in enumerate(specs)]
    for i in range(1, len(specs)):
        link = specs[i]['link']
        if link['kind'] == 'joint':
            if link.get('first_mated') and specs[i - 1]['type'] == specs[i]['type'] and specs[i]['type'] in ('spur', 'helical') \
                    and not specs[i - 1].get('module') and not specs[i].get('module'):
                # a design variant: the same two gears were mated (ideal efficiency) before being joined rigidly
                try:
                    gu.add_gear_mating(master=b.elements[i - 1], slave=b.elements[i], efficiency=1)
                except ValueError:
                    pass
            gu.add_fixed_joint(master=b.elements[i - 1], slave=b.elements[i])
        elif link['kind'] == 'gear':
            gu.add_gear_mating(master=b.elements[i - 1], slave=b.elements[i], efficiency=link['eta'])
        else:
            # earlier declarations of the same mating (a user trying several friction coefficients): the last one counts
            for f_prev in link.get('f_prev', []):
                try:
                    gu.add_worm_gear_mating(master=b.elements[i - 1], slave=b.elements[i], friction_coefficient=f_prev)
                except ValueError:
                    pass
            gu.add_worm_gear_mating(master=b.elements[i - 1], slave=b.elements[i],
                                    friction_coefficient=link['f'])
    b.motor = b.elements[0]
    b.last = b.elements[-1]
    b.load_log = []
    load = case['load']

    def external_torque(time, angular_position, angular_speed):
        t, th, w = to_si(time), to_si(angular_position), to_si(angular_speed)
        val = M.load_si(load, t, th, w)
        if load.get('lib_trig') and load.get('csin'):
            # the position-dependent term written the way the documentation's examples do it, with the library's own
            # trigonometric method and a frequency (the oracle keeps evaluating the plain formula on recorded values)
            import math
            val = M.load_si(dict(load, csin=0.0), t, th, w) + \
                load['csin'] * angular_position.sin(frequency=load['kpos'] / (2 * math.pi))
        b.load_log.append((t, th, w, val))
        v = val / U.factor_f('Torque', load['unit'])
        if load.get('numpy'):
            v = np.float64(v)             # a load function written with numpy (np.sin, np.exp): numpy scalars flow on
        return U.cls('Torque')(v, load['unit'])
    b.last.external_torque = external_torque
    b.load2_log = []
    if case.get('load2'):
        l2 = case['load2']
        el2 = b.elements[l2['at']]

        def external_torque_2(time, angular_position, angular_speed):
            t, th, w = to_si(time), to_si(angular_position), to_si(angular_speed)
            val = M.load_si(l2, t, th, w)
            b.load2_log.append((t, th, w, val))
            return U.cls('Torque')(val / U.factor_f('Torque', l2['unit']), l2['unit'])
        el2.external_torque = external_torque_2
    apply_initial_conditions(b)
    b.powertrain = Powertrain(motor=b.motor)
    for i, attr, unit in case.get('reexpress') or []:
        # the user re-expresses a parameter of an assembled element in place (same physical quantity)
        q = getattr(b.elements[i], attr, None)
        if q is not None and hasattr(q, 'to'):
            q.to(unit, inplace=True)
    if case.get('deepcopy'):
        # the user copies the assembled design (copy.deepcopy, as the library's own tests do) and simulates the copy;
        # the original stays alive and untouched
        import copy
        b.original = b.powertrain
        b.powertrain = copy.deepcopy(b.powertrain)
        b.elements = list(b.powertrain.elements)
        b.motor, b.last = b.elements[0], b.elements[-1]
    b.rules = []
    b.control = build_control(b) if case.get('control') is not None else None
    b.stop = build_stop(b) if case.get('stop') else None
    b.solver = None
    return b


def apply_initial_conditions(b, init=None, pwm=True):
    init = init or b.case['init']
    shared = b.case.get('_shared_init')
    if shared is not None:
        # the user keeps ONE AngularPosition and ONE AngularSpeed object and hands them to every powertrain of a study
        # (runtime-only key, never part of a stored case)
        if 'objs' not in shared:
            shared['objs'] = (B.q('AngularPosition', init['pos']), B.q('AngularSpeed', init['speed']))
        b.last.angular_position, b.last.angular_speed = shared['objs']
    else:
        b.last.angular_position = B.q('AngularPosition', init['pos'])
        b.last.angular_speed = B.q('AngularSpeed', init['speed'])
    if pwm:
        b.motor.pwm = b.case['motor'].get('pwm0', 1)


def build_control(b):
    from gearpy.motor_control import PWMControl
    from gearpy.motor_control import rules as Rl
    from gearpy.sensors import AbsoluteRotaryEncoder, Tachometer, Timer
    pc = PWMControl(powertrain=b.powertrain)
    b.rules = []
    b.control = pc
    add_rules(b, b.case['control'])
    return pc


def add_rules(b, specs):
    """construct the rules of `specs` and add them to the existing PWMControl (possibly after it was used)"""
    from gearpy.motor_control import rules as Rl
    from gearpy.sensors import AbsoluteRotaryEncoder, Tachometer, Timer
    pc = b.control
    for r in specs:
        k = r['rule']
        if k == 'constant':
            rule = Rl.ConstantPWM(timer=Timer(start_time=B.q('Time', r['start']),
                                              duration=B.q('TimeInterval', r['duration'])),
                                  powertrain=b.powertrain, target_pwm_value=r['value'])
        elif k == 'reach':
            rule = Rl.ReachAngularPosition(encoder=AbsoluteRotaryEncoder(b.elements[r['enc']]),
                                           powertrain=b.powertrain,
                                           target_angular_position=B.q('AngularPosition', r['target']),
                                           braking_angle=B.q('Angle', r['braking']))
        elif k == 'ramp':
            rule = Rl.StartProportionalToAngularPosition(
                encoder=AbsoluteRotaryEncoder(b.elements[r['enc']]), powertrain=b.powertrain,
                target_angular_position=B.q('AngularPosition', r['target']),
                pwm_min_multiplier=r['mult'], pwm_min=r.get('pwm_min'))
        elif k == 'limit':
            rule = Rl.StartLimitCurrent(encoder=AbsoluteRotaryEncoder(b.elements[r['enc']]),
                                        tachometer=Tachometer(b.elements[r['tach']]), motor=b.motor,
                                        target_angular_position=B.q('AngularPosition', r['target']),
                                        limit_electric_current=B.q('Current', r['limit']))
        elif k == 'stub':
            rule = StubRule(r['values'])
        else:
            raise ValueError(k)
        b.rules.append(rule)
        pc.add_rule(rule)


def build_stop(b):
    from gearpy.utils import StopCondition
    from gearpy.sensors import AbsoluteRotaryEncoder, Tachometer, Amperometer
    s = b.case['stop']
    if s['sensor'] == 'encoder':
        sensor, kind = AbsoluteRotaryEncoder(b.elements[s['target']]), 'AngularPosition'
    elif s['sensor'] == 'tachometer':
        sensor, kind = Tachometer(b.elements[s['target']]), 'AngularSpeed'
    else:
        sensor, kind = Amperometer(b.motor), 'Current'
    op = {'gt': StopCondition.greater_than, 'ge': StopCondition.greater_than_or_equal_to,
          'eq': StopCondition.equal_to, 'lt': StopCondition.less_than,
          'le': StopCondition.less_than_or_equal_to}[s['op']]
    return StopCondition(sensor=sensor, threshold=B.q(kind, s['threshold']), operator=op)


class Trace:
    """SI arrays of everything recorded"""

    def __init__(self, b: Built):
        pt = b.powertrain
        self.t = np.array([to_si(x) for x in pt.time], dtype=float)
        self.n = len(pt.time)
        self.time_units = [x.unit for x in pt.time]
        self.vars = []           # per element: {variable: array}
        self.lens = []           # per element: {variable: recorded length}
        self.kinds_ok = True
        self.bad_sample = None
        for el in pt.elements:
            d, ln = {}, {}
            for var, samples in el.time_variables.items():
                ln[var] = len(samples)
                if var == 'pwm':
                    ok = all(isinstance(s, (int, float)) and not isinstance(s, bool) for s in samples)
                    arr = np.array([float(s) for s in samples], dtype=float) if ok else None
                else:
                    ok = all(type(s).__name__ == VAR_KIND[var] for s in samples)
                    arr = np.array([to_si(s) for s in samples], dtype=float) if ok else None
                if not ok:
                    self.kinds_ok = False
                    self.bad_sample = (el.name, var)
                d[var] = arr
            self.vars.append(d)
            self.lens.append(ln)

    def get(self, i, var):
        return self.vars[i][var]


def _build_decoy():
    import gearpy.utils as gu
    from gearpy.powertrain import Powertrain
    from gearpy.solver import Solver
    J = [1e-5, 'kgm^2']
    m = B.make_element({'type': 'motor', 'J': J, 'w0': [3000, 'rpm'], 'tmax': [2, 'Nm'], 'i0': None, 'imax': None}, 'dm')
    g1 = B.make_element({'type': 'spur', 'n_teeth': 11, 'J': J}, 'dg1')
    g2 = B.make_element({'type': 'spur', 'n_teeth': 97, 'J': J}, 'dg2')
    g3 = B.make_element({'type': 'spur', 'n_teeth': 13, 'J': J}, 'dg3')
    g4 = B.make_element({'type': 'spur', 'n_teeth': 59, 'J': J}, 'dg4')
    gu.add_fixed_joint(m, g1)
    gu.add_gear_mating(g1, g2, 0.7)
    gu.add_fixed_joint(g2, g3)
    gu.add_gear_mating(g3, g4, 0.6)
    g4.external_torque = lambda time, angular_position, angular_speed: U.cls('Torque')(0.3, 'Nm')
    g4.angular_position = U.cls('AngularPosition')(1, 'rad')
    g4.angular_speed = U.cls('AngularSpeed')(2, 'rad/s')
    pt = Powertrain(m)
    # ... with a motor control, rules, sensors and a stop condition of its own
    from gearpy.motor_control import PWMControl
    from gearpy.motor_control import rules as Rl
    from gearpy.sensors import AbsoluteRotaryEncoder, Tachometer, Timer
    from gearpy.utils import StopCondition
    pc = PWMControl(powertrain=pt)
    pc.add_rule(Rl.ConstantPWM(timer=Timer(start_time=U.cls('Time')(0, 'sec'), duration=U.cls('TimeInterval')(1e9, 'sec')),
                               powertrain=pt, target_pwm_value=0.123))
    sc = StopCondition(sensor=Tachometer(g4), threshold=U.cls('AngularSpeed')(1e9, 'rad/s'),
                       operator=StopCondition.greater_than)
    return pt, Solver(pt), pc, sc, AbsoluteRotaryEncoder(g2)


class Runaway(Exception):
    """a run recorded far more instants than its grid allows and had to be interrupted"""


def _expected_steps(op):
    return U.si('TimeInterval', *op['T']) / U.si('TimeInterval', *op['dt'])


def run_op(b: Built, op: dict):
    """execute one history operation"""
    import signal
    from gearpy.solver import Solver
    kind = op['op']
    if kind == 'run':
        if b.solver is None or op.get('new_solver'):
            b.solver = Solver(powertrain=b.powertrain)
            if b.case.get('decoy'):
                # another, unrelated powertrain and its Solver come to life before ours runs (objects of different
                # models must not share state)
                b.decoy = _build_decoy()
        kw = {}
        if op.get('control') and b.control is not None:
            kw['motor_control'] = b.control
        if op.get('stop') and b.stop is not None:
            kw['stop_condition'] = b.stop
        n0 = len(b.powertrain.time)
        nexp = _expected_steps(op)

        def on_alarm(signum, frame):
            # count-based verdict: only a grid that overran by a wide margin is reported as a runaway
            if len(b.powertrain.time) - n0 > 2 * nexp + 10:
                raise Runaway(f'{len(b.powertrain.time) - n0} instants recorded for a grid of {nexp:.6g} steps')
            signal.setitimer(signal.ITIMER_REAL, 5.0)
        import time as _time
        old = signal.signal(signal.SIGALRM, on_alarm)
        outer_left, _ = signal.setitimer(signal.ITIMER_REAL, 5.0)
        t_start = _time.monotonic()
        dt_q, T_q = B.q('TimeInterval', op['dt']), B.q('TimeInterval', op['T'])
        if op.get('dt_inplace'):
            dt_q.to(op['dt_inplace'], inplace=True)        # the user converted the object in place before the call
        if op.get('T_inplace'):
            T_q.to(op['T_inplace'], inplace=True)
        try:
            b.solver.run(time_discretization=dt_q, simulation_time=T_q, **kw)
        finally:
            signal.setitimer(signal.ITIMER_REAL, 0)
            signal.signal(signal.SIGALRM, old)
            if outer_left:        # re-arm the runner's per-case watchdog with what is left of it
                signal.setitimer(signal.ITIMER_REAL, max(outer_left - (_time.monotonic() - t_start), 0.01))
    elif kind == 'reset':
        b.powertrain.reset()
        if op.get('reinit', True):
            apply_initial_conditions(b, op.get('init'), pwm=op.get('reinit_pwm', True))
    elif kind == 'set_pwm':
        b.motor.pwm = op['value']          # the user sets the duty cycle by hand between two runs
    else:
        raise ValueError(kind)


def simulate(case):
    """build + run the whole history; returns (built, [trace after each op], error)"""
    b = build(case)
    traces = []
    for op in case['history']:
        try:
            run_op(b, op)
        except Exception as e:  # noqa
            return b, traces, e
        traces.append(Trace(b))
    return b, traces, None
