"""The two worked examples of the documentation (docs/source/examples/1_simple_powertrain and
7_worm_and_helical_gears) transcribed into the case language, with the snapshot tables printed
there at t = 10 s. The numbers are documentation, not output of this code base: a change of the
physics that stays self-consistent still moves them."""
from __future__ import annotations

from vp.runner import Result
from vp.oracle import units_si as U
from vp import sim as S

_LOAD = {'c0': 0.5, 'cw': 0.0, 'csin': 0.0, 'kpos': 1.0, 'ct': 0.0, 'period': 1.0, 'unit': 'mNm'}
_INIT = {'pos': [0, 'rad'], 'speed': [0, 'rad/s']}
_RUN = [{'op': 'run', 'dt': [0.5, 'sec'], 'T': [20, 'sec']}]
_MOTOR = {'J': [3, 'gcm^2'], 'w0': [15000, 'rpm'], 'tmax': [10, 'mNm'], 'i0': None, 'imax': None, 'pwm0': 1}


def _spur(n, J, link):
    return {'type': 'spur', 'n_teeth': n, 'J': [J, 'gcm^2'], 'link': link}


EXAMPLE_1 = {
    'motor': _MOTOR,
    'chain': [{'type': 'flywheel', 'J': [20, 'kgcm^2'], 'link': {'kind': 'joint'}},
              _spur(10, 1, {'kind': 'joint'}), _spur(80, 3100, {'kind': 'gear', 'eta': 0.9}),
              _spur(10, 4, {'kind': 'joint'}), _spur(60, 5000, {'kind': 'gear', 'eta': 0.9}),
              _spur(10, 12, {'kind': 'joint'}), _spur(50, 7600, {'kind': 'gear', 'eta': 0.9})],
    'load': _LOAD, 'init': _INIT, 'history': _RUN,
}
# element index -> (position rot, speed rad/s, acceleration rad/s^2, torque mNm, driving mNm, load mNm)
TABLE_1 = {
    0: (1546.175787, 1119.894923, 1.085094, 0.012731, 2.870527, 2.857796),
    3: (193.271973, 139.986865, 0.135637, 0.091666, 20.667798, 20.576132),
    5: (32.211996, 23.331144, 0.022606, 0.494998, 111.606109, 111.111111),
    7: (6.442399, 4.666229, 0.004521, 2.227489, 502.227489, 500.000000),
}


def _hel(n, J, m, b, link):
    return {'type': 'helical', 'n_teeth': n, 'J': [J, 'gcm^2'], 'helix': [20, 'deg'], 'module': [m, 'mm'],
            'face_width': [b, 'mm'], 'E': [200, 'GPa'], 'link': link}


EXAMPLE_7 = {
    'motor': _MOTOR,
    'chain': [{'type': 'flywheel', 'J': [20, 'kgcm^2'], 'link': {'kind': 'joint'}},
              {'type': 'worm', 'n_starts': 1, 'J': [3, 'gcm^2'], 'pressure': [20, 'deg'], 'helix': [10, 'deg'],
               'ref_diameter': [10, 'mm'], 'link': {'kind': 'joint'}},
              {'type': 'wheel', 'n_teeth': 50, 'J': [500, 'gcm^2'], 'pressure': [20, 'deg'], 'helix': [10, 'deg'],
               'module': [1, 'mm'], 'face_width': [10, 'mm'], 'link': {'kind': 'worm', 'f': 0.4}},
              _hel(10, 2, 1, 15, {'kind': 'joint'}), _hel(50, 750, 1, 15, {'kind': 'gear', 'eta': 0.9}),
              _hel(10, 8, 1.5, 20, {'kind': 'joint'}), _hel(40, 2000, 1.5, 20, {'kind': 'gear', 'eta': 0.9})],
    'load': _LOAD, 'init': _INIT, 'history': _RUN,
}
# + (tangential force N, bending stress MPa, contact stress MPa)
TABLE_7 = {
    0: (1750.283916, 1212.664997, 0.158727, 0.001448, 2.279935, 2.278487, None, None, None),
    2: (1750.283916, 1212.664997, 0.158727, 0.001448, 2.279935, 2.278487, 0.080352, None, None),
    3: (35.005678, 24.253300, 0.003175, 0.019617, 30.883814, 30.864198, 1.235353, 13.519356, None),
    4: (35.005678, 24.253300, 0.003175, 0.019617, 30.883814, 30.864198, 6.17284, 1.697105, 61.723522),
    5: (7.001136, 4.850660, 0.000635, 0.088274, 138.977163, 138.888889, 5.559087, 0.881963, 58.57468),
    6: (7.001136, 4.850660, 0.000635, 0.088274, 138.977163, 138.888889, 18.518519, 2.545658, 77.154403),
    7: (1.750284, 1.212665, 0.000159, 0.317788, 500.317788, 500.000000, 16.67726, 1.377898, 73.21835),
}
COLS = [('angular position', 'AngularPosition', 'rot'), ('angular speed', 'AngularSpeed', 'rad/s'),
        ('angular acceleration', 'AngularAcceleration', 'rad/s^2'), ('torque', 'Torque', 'mNm'),
        ('driving torque', 'Torque', 'mNm'), ('load torque', 'Torque', 'mNm'),
        ('tangential force', 'Force', 'N'), ('bending stress', 'Stress', 'MPa'), ('contact stress', 'Stress', 'MPa')]
GOLDEN = {'example-1': (EXAMPLE_1, TABLE_1), 'example-7': (EXAMPLE_7, TABLE_7)}


def enum_golden():
    for name in GOLDEN:
        yield {'golden': name}


def check_golden(case, pid, columns=None) -> Result:
    """documentation table vs the simulation of the documented model, to the printed precision"""
    res = Result()
    name = case['golden']
    model_case, table = GOLDEN[name]
    b, traces, err = S.simulate(model_case)
    if err is not None or not traces:
        res.bad(f'{pid}/golden/{name}/run-raises', f'documentation example raised {err!r}')
        return res
    tr = traces[-1]
    k = 20                       # t = 10 s with dt = 0.5 s
    if tr.n != 41 or abs(tr.t[k] - 10.0) > 1e-9:
        res.bad(f'{pid}/golden/{name}/time-axis', f'{tr.n} instants, t[20] = {tr.t[k] if tr.n > k else None!r}')
        return res
    for i, row in table.items():
        for (var, kind, unit), exp in zip(COLS, row):
            if exp is None or (columns is not None and var not in columns):
                continue
            if var not in tr.vars[i] or tr.vars[i][var] is None or len(tr.vars[i][var]) != tr.n:
                res.bad(f'{pid}/golden/{name}/missing/{var.replace(" ", "-")}', f'element {i} does not record {var!r}')
                continue
            got = tr.vars[i][var][k] / U.factor_f(kind, unit)
            digits = len(repr(exp).split('.')[-1]) if '.' in repr(exp) else 0
            tol = 0.6 * 10.0 ** (-min(digits, 6)) + 2e-6 * abs(exp)
            if not abs(got - exp) <= tol:
                res.bad(f'{pid}/golden/{name}/{var.replace(" ", "-")}',
                        f'{name}: element {i} {var} at t = 10 s is {got!r} {unit}, the documentation prints {exp!r}')
    res.nontrivial = True
    res.classes += (f'golden:{name}',)
    return res
