"""C01 — kinematic coupling: neighbours move in the gear ratio at every instant."""
from __future__ import annotations

import numpy as np
from hypothesis import strategies as st

from vp.runner import Part, Result
from vp import gen as G
from vp import invariants as I
from vp import simprops as SP

ID = 'C01'
RULE = ('Hypothesis builds valid powertrains by construction (motor + 1..7 elements: flywheels, spur / helical '
        'pairs, worm matings in both orientations, joints; every quantity in a random unit of its kind), loads '
        'depending on time, speed and position (also above stall, either sign), initial conditions, and a '
        'history (run | run + continued run | run, reset, rerun). After every history segment, for EVERY recorded '
        'instant and EVERY adjacent pair, position / speed / acceleration of the upstream element must equal the '
        'ratio (recomputed from teeth / starts in the case, not read from the library) times the downstream '
        'value (1e-9 relative). Non-trivial = at least one ratio != 1 and an instant with non-zero speed and '
        'non-zero acceleration; distinct = canonical JSON.')
ASSUMPTIONS = ['ratios recomputed from the case by vp/model.py', 'dt is drawn relative to the model time constant '
               '(0.02..1.2 / k) so that trajectories stay finite']


def check(case) -> Result:
    res = Result()
    r = SP.simulate_checked(case, res, ID)
    if r is None:
        return res
    b, traces, err = r
    mdl = b.model
    out = []
    n = 0
    moving = False
    for tr, dts in SP.segments(case, traces):
        if not I.complete(tr) or not I.finite_trace(tr):
            res.classes += ('incomplete-or-nonfinite-trace',)
            continue
        n += I.kinematic_coupling(mdl, tr, out)
        w = tr.get(mdl.n - 1, 'angular speed')
        a = tr.get(mdl.n - 1, 'angular acceleration')
        moving = moving or bool(np.any((w != 0) & (a != 0)))
    seen = set()
    for sig, msg in out:
        if sig not in seen:
            seen.add(sig)
            res.bad(sig, msg)
    res.count = max(n, 1)
    res.nontrivial = moving and any(x != 1.0 for x in mdl.ratios[1:])
    res.classes += (f'len:{mdl.n}', 'worm' if any(e['type'] == 'worm' for e in mdl.elements) else 'no-worm',
                    'self-locking' if mdl.self_locking else 'free', f'history:{len(case["history"])}')
    return res


def parts(tier):
    if tier == 'quick':
        return [Part('chains', check, strategy=G.s_case(max_len=6, max_steps=30, nonmultiple=True), examples=350, shards=4)]
    return [Part('chains', check, strategy=G.s_case(max_len=11, max_steps=120, nonmultiple=True), examples=2500, shards=16)]
