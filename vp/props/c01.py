"""C01 — kinematic coupling: neighbours move in the gear ratio at every instant."""
from __future__ import annotations

import numpy as np
from hypothesis import strategies as st

from vp.runner import Part, Result
from vp import gen as G
from vp import invariants as I
from vp import simprops as SP

ID = 'C01'
RULE = ('Hypothesis builds valid powertrains by construction (motor + 1..7 elements: flywheels, spur / helical '
        'pairs, worm matings in both orientations, joints; every quantity in a random unit of its kind), loads '
        'depending on time, speed and position (also above stall, either sign, or exactly zero), duty-cycle histories from '
        'ConstantPWM windows (incl. the dead zone), initial conditions, and a '
        'history (run | run + continued run | run, reset, rerun - also from other initial conditions; a dedicated part reruns '
        'self-locking drives that ended held). After every history segment, for EVERY recorded '
        'instant and EVERY adjacent pair, position / speed / acceleration of the upstream element must equal the '
        'ratio (recomputed from teeth / starts in the case, not read from the library) times the downstream '
        'value (1e-9 relative). Non-trivial = at least one ratio != 1 and an instant with non-zero speed and '
        'non-zero acceleration; distinct = canonical JSON.')
ASSUMPTIONS = ['ratios recomputed from the case by vp/model.py', 'dt is drawn relative to the model time constant '
               '(0.02..1.2 / k) so that trajectories stay finite']


def check(case) -> Result:
    res = Result()
    r = SP.simulate_checked(case, res, ID)
    if r is None:
        return res
    b, traces, err = r
    mdl = b.model
    out = []
    n = 0
    moving = False
    for tr, dts in SP.segments(case, traces):
        if not I.complete(tr) or not I.finite_trace(tr):
            res.classes += ('incomplete-or-nonfinite-trace',)
            continue
        n += I.kinematic_coupling(mdl, tr, out)
        w = tr.get(mdl.n - 1, 'angular speed')
        a = tr.get(mdl.n - 1, 'angular acceleration')
        moving = moving or bool(np.any((w != 0) & (a != 0)))
    seen = set()
    for sig, msg in out:
        if sig not in seen:
            seen.add(sig)
            res.bad(sig, msg)
    res.count = max(n, 1)
    res.nontrivial = moving and any(x != 1.0 for x in mdl.ratios[1:])
    res.classes += (f'len:{mdl.n}', 'worm' if any(e['type'] == 'worm' for e in mdl.elements) else 'no-worm',
                    'self-locking' if mdl.self_locking else 'free', f'history:{len(case["history"])}')
    return res


@st.composite
def s_held_rerun(draw, max_steps=30):
    """self-locking drives under heavy load that tend to end a run held, then reset and rerun from OTHER initial
    conditions with the same Solver: every element must follow the new position from the first instant on"""
    from vp.props import c13 as C13
    from vp import model as M
    case = draw(C13.s_case(max_len=4, max_steps=max_steps))
    run1 = case['history'][0]
    mdl = M.Model(case)
    case['history'] = [run1, {'op': 'reset', 'reinit': True, 'init': G.s_init(draw, mdl)},
                       dict(run1, new_solver=draw(st.integers(0, 3)) == 0)]
    return case


def parts(tier):
    if tier == 'quick':
        return [Part('held-reruns', check, strategy=s_held_rerun(), examples=120, shards=4), Part('chains', check, strategy=G.s_case_controlled(max_len=6, max_steps=30, nonmultiple=True), examples=350, shards=4)]
    return [Part('held-reruns', check, strategy=s_held_rerun(80), examples=1500, shards=4),
            Part('chains', check, strategy=G.s_case_controlled(max_len=11, max_steps=120, nonmultiple=True), examples=2500, shards=12)]
