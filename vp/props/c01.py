"""C01 — kinematic coupling: neighbours move in the gear ratio at every instant."""
from __future__ import annotations

import numpy as np
from hypothesis import strategies as st

from vp.runner import Part, Result
from vp import gen as G
from vp import invariants as I
from vp import simprops as SP
from vp import sim as S

ID = 'C01'
RULE = ('Hypothesis builds valid powertrains by construction (motor + 1..7 elements: flywheels, spur / helical '
        'pairs, worm matings in both orientations, joints; every quantity in a random unit of its kind), loads '
        'depending on time, speed and position (also above stall, either sign, or exactly zero), duty-cycle histories from '
        'ConstantPWM windows (incl. the dead zone), initial conditions, and a '
        'history (run | run + continued run | run, reset, rerun - also from other initial conditions; a dedicated part reruns '
        'self-locking drives that ended held). After every history segment, for EVERY recorded '
        'instant and EVERY adjacent pair, position / speed / acceleration of the upstream element must equal the '
        'ratio (recomputed from teeth / starts in the case, not read from the library) times the downstream '
        'value (1e-9 relative). Non-trivial = at least one ratio != 1 and an instant with non-zero speed and '
        'non-zero acceleration; distinct = canonical JSON.')
ASSUMPTIONS = ['ratios recomputed from the case by vp/model.py', 'dt is drawn relative to the model time constant '
               '(0.02..1.2 / k) so that trajectories stay finite']


def check(case) -> Result:
    res = Result()
    r = SP.simulate_checked(case, res, ID)
    if r is None:
        return res
    b, traces, err = r
    mdl = b.model
    out = []
    n = 0
    moving = False
    for tr, dts in SP.segments(case, traces):
        if not I.complete(tr) or not I.finite_trace(tr):
            res.classes += ('incomplete-or-nonfinite-trace',)
            continue
        n += I.kinematic_coupling(mdl, tr, out)
        w = tr.get(mdl.n - 1, 'angular speed')
        a = tr.get(mdl.n - 1, 'angular acceleration')
        moving = moving or bool(np.any((w != 0) & (a != 0)))
    if case.get('second_life') and err is None and not out:
        n += _second_life(case, b, out, res)
    seen = set()
    for sig, msg in out:
        if sig not in seen:
            seen.add(sig)
            res.bad(sig, msg)
    res.count = max(n, 1)
    res.nontrivial = moving and any(x != 1.0 for x in mdl.ratios[1:])
    res.classes += (f'len:{mdl.n}', 'worm' if any(e['type'] == 'worm' for e in mdl.elements) else 'no-worm',
                    'self-locking' if mdl.self_locking else 'free', f'history:{len(case["history"])}')
    return res


def _second_life(case, b, out, res):
    """The gear train is kept and the drive is changed: after the history the powertrain is reset and a NEW motor (and,
    in the 'pinion' variant, a new pinion with another number of teeth) is declared onto the old elements; a new
    Powertrain and a new Solver simulate it. Every pair must be coupled in the ratios of the chain as it is NOW. In the
    'motor' variant the first powertrain is then simulated again (both drives share the train; ratios unchanged)."""
    from vp import model as M
    sl = case['second_life']
    chain = case['chain']
    run = next(op for op in case['history'] if op['op'] == 'run')
    run = {k: v for k, v in run.items() if k in ('op', 'dt', 'T')}
    n = 0
    try:
        b.powertrain.reset()
        if sl['kind'] == 'pinion':
            i = sl['link']                       # element i is the slave of a gear mating with element i - 1
            pin = dict(chain[i - 2], n_teeth=sl['teeth'], link={'kind': 'joint'})
            case2 = dict(case, chain=[pin] + chain[i - 1:], history=[run], control=None, stop=None, load2=None,
                         deepcopy=False, reexpress=None)
            reuse = {2 + k: b.elements[i + k] for k in range(len(chain) - i + 1)}
        else:
            case2 = dict(case, history=[run], control=None, stop=None, load2=None, deepcopy=False, reexpress=None)
            reuse = {k: b.elements[k] for k in range(1, len(chain) + 1)}
        # the step of the first life may be too coarse for the new chain (explicit integration diverges beyond k dt = 2):
        # keep the number of steps, shorten the step to k dt <= 0.5
        from vp.oracle import units_si as U
        k2 = M.Model(case2).k
        dt_si = U.si('TimeInterval', *run['dt'])
        steps = max(2, round(U.si('TimeInterval', *run['T']) / dt_si))
        if k2 * dt_si > 0.5:
            f = 0.5 / (k2 * dt_si)
            run = dict(run, dt=[run['dt'][0] * f, run['dt'][1]])
        run = dict(run, T=[run['dt'][0] * steps, run['dt'][1]])
        case2['history'] = [run]
        b2 = S.build(case2, reuse=reuse)
        S.run_op(b2, run)
        tr2 = S.Trace(b2)
        if I.complete(tr2) and I.finite_trace(tr2):
            o2 = []
            n += I.kinematic_coupling(b2.model, tr2, o2)
            out.extend((sig + '/second-life', 'drive changed, train kept (' + sl['kind'] + '): ' + msg) for sig, msg in o2)
        res.classes += (f'second-life:{sl["kind"]}',)
        if sl['kind'] == 'motor' and not out:
            b2.powertrain.reset()
            S.apply_initial_conditions(b)
            S.run_op(b, run)
            tr3 = S.Trace(b)
            if I.complete(tr3) and I.finite_trace(tr3):
                o3 = []
                n += I.kinematic_coupling(b.model, tr3, o3)
                out.extend((sig + '/first-drive-again', 'first drive simulated again after the second: ' + msg) for sig, msg in o3)
            res.classes += ('first-drive-again',)
    except Exception as e:  # noqa
        from vp.simprops import by_design
        res.classes += (f'second-life-raised:{type(e).__name__}',)
        diverged = isinstance(e, OverflowError) or 'math domain error' in str(e)     # the harness's own load function met
        #                                                     an infinite position: the integration diverged, nothing to judge
        if not by_design(e) and not diverged:
            out.append((f'C01/second-life/raises/{type(e).__name__}', f'{sl}: {type(e).__name__}: {e}'))
    return n


@st.composite
def s_chains(draw, **kw):
    case = draw(G.s_case_controlled(**kw))
    if draw(st.integers(0, 3)) == 0:
        chain = case['chain']
        links = [k + 1 for k, e in enumerate(chain) if e['link']['kind'] == 'gear' and k >= 1]
        if links and draw(st.integers(0, 3)) > 0:
            i = draw(st.sampled_from(links))
            old = chain[i - 2]['n_teeth']
            teeth = draw(st.integers(10, 80).filter(lambda z: z != old))
            case['second_life'] = {'kind': 'pinion', 'link': i, 'teeth': teeth}
        elif chain[0]['link']['kind'] == 'joint':
            case['second_life'] = {'kind': 'motor'}
    return case


@st.composite
def s_held_rerun(draw, max_steps=30):
    """self-locking drives under heavy load that tend to end a run held, then reset and rerun from OTHER initial
    conditions with the same Solver: every element must follow the new position from the first instant on"""
    from vp.props import c13 as C13
    from vp import model as M
    case = draw(C13.s_case(max_len=4, max_steps=max_steps))
    run1 = case['history'][0]
    mdl = M.Model(case)
    case['history'] = [run1, {'op': 'reset', 'reinit': True, 'init': G.s_init(draw, mdl)},
                       dict(run1, new_solver=draw(st.integers(0, 3)) == 0)]
    return case


def parts(tier):
    if tier == 'quick':
        return [Part('held-reruns', check, strategy=s_held_rerun(), examples=120, shards=4), Part('chains', check, strategy=s_chains(max_len=6, max_steps=30, nonmultiple=True), examples=350, shards=4)]
    return [Part('held-reruns', check, strategy=s_held_rerun(80), examples=1500, shards=4),
            Part('chains', check, strategy=s_chains(max_len=11, max_steps=120, nonmultiple=True), examples=2500, shards=12)]
