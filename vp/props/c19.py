"""C19 — sign-constrained quantities and parameters can never be invalid."""
from __future__ import annotations

import math

from hypothesis import strategies as st

from vp.runner import Part, Result
from vp.oracle import units_si as U

ID = 'C19'
RULE = ('programs: Hypothesis draws straight-line programs (1..25 steps) over a pool of live quantities: '
        'construct (any kind/unit, values of either sign, 0, subnormal..1e300), + - * /, abs, neg, to(copy), '
        'to(inplace); after EVERY step every live object of a constrained kind must satisfy its constraint '
        '(including receivers of failed in-place operations), no operation returns None, every exception is '
        'TypeError/ValueError/ZeroDivisionError/KeyError/OverflowError. Non-trivial = the program contains an '
        'in-place conversion or a raising operation followed by further use of the pool, and at least one '
        'constrained object is live. constructors: Hypothesis draws component constructor arguments around '
        'each non-physical boundary named in the statement (any unit); invalid ones must raise ValueError; '
        'non-trivial = the drawn argument set is invalid in at least one listed way. Distinct = canonical JSON.')
ASSUMPTIONS = [
    'operands of every step are finite (a non-finite result is retired, so NaN is unreachable)',
    'a no-load current of exactly 0 is accepted by the library and used by C08; it is treated as valid',
    'arguments within 1e-9 relative of a threshold (helix = 90 deg, i0 = imax) are not judged, except the exact decimal '
    'literals of a quarter turn (90 deg, 5400 arcmin, 324000 arcsec, 0.25 rot) and equal currents written in two units',
]
OK_EXC = (TypeError, ValueError, ZeroDivisionError, KeyError, OverflowError)


def _valid(obj):
    k = type(obj).__name__
    v = obj.value
    if isinstance(v, float) and math.isnan(v):
        return False
    return U.sign_ok(k, v)


def _finite(x):
    v = x.value if hasattr(x, 'value') else x
    return isinstance(v, (int, float)) and not isinstance(v, bool) and math.isfinite(v)


def check_program(case) -> Result:
    from gearpy.units import UnitBase
    res = Result()
    pool = []          # live finite quantities (handled by identity)
    watched = []       # every quantity object ever seen that is still referenced (incl. failed receivers)
    raised = inplace = 0
    used_after = False
    for n, step in enumerate(case['steps']):
        op = step['op']
        before_flag = raised + inplace
        try:
            r = None
            if op == 'new':
                r = U.cls(step['kind'])(step['value'], step['unit'])
            elif not pool:
                continue
            elif op in ('abs', 'neg'):
                a = pool[step['a'] % len(pool)]
                r = abs(a) if op == 'abs' else -a
            elif op == 'to':
                a = pool[step['a'] % len(pool)]
                units = list(U.UNITS[type(a).__name__])
                unit = units[step['unit_ix'] % len(units)]
                if step['inplace']:
                    inplace += 1
                r = a.to(unit, inplace=step['inplace'])
                if step['inplace'] and r is not a:
                    res.bad('C19/inplace-not-self', f'step {n}: to(inplace=True) did not return the receiver')
            else:
                a = pool[step['a'] % len(pool)]
                b = step['num'] if 'num' in step else pool[step['b'] % len(pool)]
                if step.get('swap') and 'num' in step:
                    a, b = b, a
                if op == 'add':
                    r = a + b
                elif op == 'sub':
                    r = a - b
                elif op == 'mul':
                    r = a * b
                else:
                    r = a / b
            if before_flag:
                used_after = True
            if r is None:
                res.bad(f'C19/none-result/{op}', f'step {n} {step} returned None')
            elif isinstance(r, UnitBase):
                if not any(r is w for w in watched):
                    watched.append(r)
                if _finite(r):
                    if not any(r is p for p in pool):
                        pool.append(r)
                else:
                    pool[:] = [p for p in pool if p is not r]
        except OK_EXC:
            raised += 1
        except Exception as e:  # noqa
            res.bad(f'C19/unexpected-exception/{type(e).__name__}', f'step {n} {step}: {type(e).__name__}: {e}')
        # invariant over every object still alive in the program
        pool[:] = [p for p in pool if _finite(p)]
        for w in watched:
            if not _valid(w):
                k = type(w).__name__
                res.bad(f'C19/invalid-live-object/{k}/after-{op}' + ('-inplace' if step.get('inplace') else ''),
                        f'after step {n} {step}: live {k} object {w!r} violates its sign constraint')
                watched[:] = [x for x in watched if x is not w]
                pool[:] = [x for x in pool if x is not w]
                break
    constrained = sum(1 for w in watched if type(w).__name__ in U.SIGN)
    res.nontrivial = bool((inplace or raised) and used_after and constrained)
    res.classes = (f'raised:{min(raised, 3)}', f'inplace:{min(inplace, 3)}',
                   'constrained-live' if constrained else 'no-constrained')
    return res


_vals = st.one_of(
    st.builds(lambda m, e: m * 10.0 ** e, st.floats(1, 10, exclude_max=True), st.integers(-12, 12)),
    st.builds(lambda m, e: m * 10.0 ** e, st.floats(1, 10, exclude_max=True), st.integers(-323, -290)),
    st.builds(lambda m, e: m * 10.0 ** e, st.floats(1, 10, exclude_max=True), st.integers(280, 300)),
    st.sampled_from([0, 0.0, 1, 1.0, 5e-324, 2.2250738585072014e-308, 1e-322, 1.7e308]),
    st.integers(-10 ** 6, 10 ** 6),
)
_signed = st.one_of(_vals, _vals.map(lambda x: -x))


@st.composite
def s_step(draw):
    op = draw(st.sampled_from(['new', 'new', 'new', 'add', 'sub', 'mul', 'div', 'abs', 'neg', 'to', 'to', 'to']))
    if op == 'new':
        kind = draw(st.sampled_from(U.KINDS + 3 * ['Length', 'Surface', 'InertiaMoment', 'TimeInterval', 'Angle']))
        return {'op': 'new', 'kind': kind, 'unit': draw(st.sampled_from(list(U.UNITS[kind]))),
                'value': draw(_signed)}
    if op in ('abs', 'neg'):
        return {'op': op, 'a': draw(st.integers(0, 30))}
    if op == 'to':
        return {'op': 'to', 'a': draw(st.integers(0, 30)), 'unit_ix': draw(st.integers(0, 16)),
                'inplace': draw(st.integers(0, 3)) > 0}
    step = {'op': op, 'a': draw(st.integers(0, 30))}
    if draw(st.booleans()):
        step['num'] = draw(_signed)
        step['swap'] = draw(st.booleans())
    else:
        step['b'] = draw(st.integers(0, 30))
    return step


s_program = st.builds(lambda steps: {'steps': steps}, st.lists(s_step(), min_size=3, max_size=25))


# ---------------------------------------------------------------------------------------
# constructors

WORM_LIMIT = {14.5: 16.0, 20.0: 25.0, 25.0: 35.0, 30.0: 45.0}


def _q(kind, v, unit):
    return U.cls(kind)(v, unit)


def _pressure(case):
    """the tabulated pressure angle, written in the case's unit (correctly rounded conversion from degrees)"""
    u = case.get('pressure_unit', 'deg')
    if u == 'deg':
        return _q('Angle', case['pressure_deg'], 'deg')
    return _q('Angle', float(U.convert_exact('Angle', case['pressure_deg'], 'deg', u)), u)


def _from_si(kind, si, unit):
    return si / U.factor_f(kind, unit)


def check_ctor(case) -> Result:
    import gearpy.mechanical_objects as mo
    res = Result()
    which = case['ctor']
    invalid = []          # listed reasons that make the argument set non-physical
    ambiguous = False
    J = _q('InertiaMoment', 1.0, 'kgm^2')
    try:
        if which == 'DCMotor':
            w0, tm = case['w0'], case['tmax']
            if w0[0] <= 0:
                invalid.append('no_load_speed<=0')
            if tm[0] <= 0:
                invalid.append('maximum_torque<=0')
            kw = {}
            if ('i0' in case) != ('imax' in case):
                # only one of the two optional currents is given: it is validated on its own
                if 'i0' in case:
                    if case['i0'][0] < 0:
                        invalid.append('no_load_current<0')
                    kw = dict(no_load_electric_current=_q('Current', *case['i0']))
                else:
                    if case['imax'][0] <= 0:
                        invalid.append('maximum_current<=0')
                    kw = dict(maximum_electric_current=_q('Current', *case['imax']))
            elif 'i0' in case:
                i0, im = case['i0'], case['imax']
                if i0[0] < 0:
                    invalid.append('no_load_current<0')
                if im[0] <= 0:
                    invalid.append('maximum_current<=0')
                s0, s1 = U.si('Current', *i0), U.si('Current', *im)
                if case.get('equal_currents'):
                    # the same decimal magnitude written in two units: 'not below the maximum current' (C05: equal
                    # magnitudes compare equal whatever the units)
                    invalid.append('no_load_current>=maximum_current')
                elif abs(s0 - s1) <= 1e-9 * max(abs(s0), abs(s1)):
                    ambiguous = True
                elif s0 >= s1:
                    invalid.append('no_load_current>=maximum_current')
                kw = dict(no_load_electric_current=_q('Current', *i0), maximum_electric_current=_q('Current', *im))
            mo.DCMotor(name='m', inertia_moment=J, no_load_speed=_q('AngularSpeed', *w0),
                       maximum_torque=_q('Torque', *tm), **kw)
        elif which == 'pwm':
            m = mo.DCMotor(name='m', inertia_moment=J, no_load_speed=_q('AngularSpeed', 100, 'rad/s'),
                           maximum_torque=_q('Torque', 1, 'Nm'))
            if not (-1 <= case['pwm'] <= 1):
                invalid.append('pwm-outside[-1,1]')
            m.pwm = case['pwm']
            if m.pwm != case['pwm']:
                res.bad('C19/ctor/pwm/not-stored', f'pwm {case["pwm"]!r} stored as {m.pwm!r}')
        elif which in ('SpurGear', 'HelicalGear', 'WormWheel'):
            kw = {}
            if case['n_teeth'] < 10:
                invalid.append('n_teeth<minimum')
            if 'E' in case and which != 'WormWheel':
                if case['E'][0] <= 0:
                    invalid.append('elastic_modulus<=0')
                kw['elastic_modulus'] = _q('Stress', *case['E'])
            if which == 'HelicalGear':
                hs = U.si('Angle', *case['helix'])
                if case.get('exact90'):
                    # exactly a quarter turn written as a decimal literal of its unit (90 deg, 5400 arcmin, 0.25 rot):
                    # 'helix angle >= 90 degrees' (equal magnitudes compare equal whatever the units, C05)
                    invalid.append('helix>=90deg')
                elif abs(hs - math.pi / 2) <= 1e-9:
                    ambiguous = True
                elif hs >= math.pi / 2:
                    invalid.append('helix>=90deg')
                kw['helix_angle'] = _q('Angle', *case['helix'])
            if which == 'WormWheel':
                pa = case['pressure_deg']
                hs = math.degrees(U.si('Angle', *case['helix']))
                if abs(hs - WORM_LIMIT[pa]) <= 1e-9 * WORM_LIMIT[pa]:
                    ambiguous = True
                elif hs > WORM_LIMIT[pa]:
                    invalid.append('helix>worm-limit')
                kw['helix_angle'] = _q('Angle', *case['helix'])
                kw['pressure_angle'] = _pressure(case)
            getattr(mo, which)(name='g', n_teeth=case['n_teeth'], inertia_moment=J, **kw)
        elif which == 'WormGear':
            pa = case['pressure_deg']
            hs = math.degrees(U.si('Angle', *case['helix']))
            if abs(hs - WORM_LIMIT[pa]) <= 1e-9 * WORM_LIMIT[pa]:
                ambiguous = True
            elif hs > WORM_LIMIT[pa]:
                invalid.append('helix>worm-limit')
            if case['n_starts'] < 1:
                invalid.append('n_starts<1')
            mo.WormGear(name='w', n_starts=case['n_starts'], inertia_moment=J,
                        helix_angle=_q('Angle', *case['helix']), pressure_angle=_pressure(case))
        outcome = 'constructed'
    except ValueError:
        outcome = 'ValueError'
    except Exception as e:  # noqa
        outcome = type(e).__name__
        res.bad(f'C19/ctor/{which}/unexpected-{outcome}', f'{case}: {type(e).__name__}: {e}')
    res.nontrivial = bool(invalid) and not ambiguous
    res.classes = (f'ctor:{which}', 'invalid-args' if invalid else 'valid-args', f'outcome:{outcome}')
    if invalid and not ambiguous and outcome == 'constructed':
        res.bad(f'C19/ctor/{which}/accepted:{invalid[0]}', f'{case} accepted although {invalid}')
    if not invalid and not ambiguous and outcome == 'ValueError':
        res.classes += ('valid-rejected',)
    return res


def _sq(kind, lo=-3, hi=3, signed=True):
    mag = st.builds(lambda m, e: m * 10.0 ** e, st.floats(1, 10, exclude_max=True), st.integers(lo, hi))
    val = st.one_of(mag, mag.map(lambda x: -x), st.sampled_from([0, 0.0, -1e-300, 1e-300])) if signed else mag
    return st.tuples(val, st.sampled_from(list(U.UNITS[kind]))).map(list)


@st.composite
def s_ctor(draw):
    which = draw(st.sampled_from(['DCMotor', 'DCMotor', 'pwm', 'SpurGear', 'HelicalGear', 'WormWheel', 'WormGear']))
    case = {'ctor': which}
    if which == 'DCMotor':
        bad = draw(st.sampled_from(['w0', 'tmax', 'i0', 'imax', 'order', 'equal', 'none', 'none', 'several', 'one-current']))
        # ('several': more than one parameter may be non-physical at once - two wrongs do not make a right)
        case['w0'] = draw(_sq('AngularSpeed', signed=bad in ('w0', 'several')))
        case['tmax'] = draw(_sq('Torque', signed=bad in ('tmax', 'several')))
        if bad == 'one-current':
            which_ = draw(st.sampled_from(['i0', 'imax', 'imax']))
            case[which_] = draw(_sq('Current', -2, 2))
        elif bad == 'equal':
            from fractions import Fraction as Fr
            ua = draw(st.integers(1, 9999)) * 10 ** draw(st.integers(0, 3))          # microampere
            u1, u2 = draw(st.permutations(['A', 'mA', 'uA']))[:2]
            case['i0'] = [float(Fr(ua, 10 ** 6) / U.factor('Current', u1)), u1]
            case['imax'] = [float(Fr(ua, 10 ** 6) / U.factor('Current', u2)), u2]
            case['equal_currents'] = True
        elif bad in ('i0', 'imax', 'order') or draw(st.booleans()):
            im = draw(_sq('Current', -2, 2, signed=bad == 'imax'))
            iu = draw(st.sampled_from(list(U.UNITS['Current'])))
            if bad == 'order':
                f = draw(st.sampled_from([1.0, 1.0000001, 1.5, 10.0, 0.9999999, 0.5]))
            else:
                f = draw(st.floats(0.0, 0.95))
            i0v = _from_si('Current', abs(U.si('Current', *im)) * f, iu)
            if bad == 'i0':
                i0v = -abs(i0v) if i0v else -1e-9
            case['imax'] = im
            case['i0'] = [i0v, iu]
    elif which == 'pwm':
        case['pwm'] = draw(st.one_of(st.floats(-3, 3), st.sampled_from([1, -1, 0, 1.0000000000000002,
                                                                         -1.0000000000000002, 2, -2])))
    elif which in ('SpurGear', 'HelicalGear', 'WormWheel'):
        case['n_teeth'] = draw(st.one_of(st.integers(-5, 14), st.integers(10, 600)))
        if which != 'WormWheel' and draw(st.booleans()):
            case['E'] = draw(_sq('Stress', -2, 3))
        if which == 'HelicalGear':
            u = draw(st.sampled_from(list(U.UNITS['Angle'])))
            deg = draw(st.one_of(st.floats(0, 200), st.floats(0, 1000), st.sampled_from([89.999, 90.0, 90.001, 0.0, 45.0, 135.0, 270.0, 300.0, 360.0, 400.0])))
            case['helix'] = [_from_si('Angle', math.radians(deg), u), u]
            if draw(st.integers(0, 9)) == 0:
                case['helix'] = draw(st.sampled_from([[90, 'deg'], [90.0, 'deg'], [5400, 'arcmin'], [324000, 'arcsec'], [0.25, 'rot']]))
                case['exact90'] = True
        if which == 'WormWheel':
            _worm(draw, case)
    else:
        case['n_starts'] = draw(st.integers(-2, 6))
        _worm(draw, case)
    return case


def _worm(draw, case):
    pa = draw(st.sampled_from(list(WORM_LIMIT)))
    lim = WORM_LIMIT[pa]
    u = draw(st.sampled_from(list(U.UNITS['Angle'])))
    deg = draw(st.one_of(st.floats(0.5, 89), st.sampled_from([lim, lim * 1.001, lim * 0.999, lim + 1, lim - 1])))
    case['pressure_deg'] = pa
    case['pressure_unit'] = draw(st.sampled_from(list(U.UNITS['Angle'])))
    case['helix'] = [_from_si('Angle', math.radians(deg), u), u]


def parts(tier):
    if tier == 'quick':
        return [Part('programs', check_program, strategy=s_program, examples=2500, shards=4),
                Part('constructors', check_ctor, strategy=s_ctor(), examples=1500, shards=2)]
    return [Part('programs', check_program, strategy=s_program, examples=40000, shards=14, fuzz_runs=100000, fuzz_shards=8),
            Part('constructors', check_ctor, strategy=s_ctor(), examples=20000, shards=2)]
