"""C11 — the time axis is the uniform grid 0, dt, ..., T and never overruns T."""
from __future__ import annotations

from fractions import Fraction as Fr

from hypothesis import strategies as st

from vp.runner import Part, Result
from vp.oracle import units_si as U
from vp import sim as S

ID = 'C11'
RULE = ('Smallest powertrain (motor + one gear; in a fifth of the cases a self-locking worm drive that is held throughout, by '
        'overload or by a zero duty cycle; a continuation may use a new Solver object; in a seventh of the cases a second Powertrain object is then built over the same, not reset, chain and run afresh: it must record the full grid from 0 and leave the first axis alone). Hypothesis draws dt = m * 10^-e (m 1..999, e 0..4) in each of the 4 '
        'time units, n = 2..200 steps (part long-grids: 8192..150000 steps), T written either as the float product dt*n or as the decimal literal of '
        'm*n*10^-e, in the same or in another time unit; optionally a continuation (dt2, n2) built the same way, '
        'and optionally a stop condition. Oracle in exact rational seconds: a fresh run records n+1 instants, '
        'time[0] = 0, time[k] = k*dt, the last equals T and none exceeds T; a continuation appends n2 instants dt2 '
        'apart ending at T1+T2; with a stop condition the axis is a prefix of the grid (1e-9 relative). '
        'Non-trivial = dt is not exactly representable in binary (e >= 1 and not dyadic) or dt and T use '
        'different units; distinct = canonical JSON.')
ASSUMPTIONS = ['T is a multiple of dt (the statement\'s round(T/dt) presupposes it); non-multiples are outside the domain',
               'the motor inertia is chosen from dt so that k*dt = 0.1 (the trajectory stays finite for every dt from '
               '1e-7 s to 3.6e6 s); only the time axis is judged here']


def _exact_si(m, e, unit):
    return Fr(m, 10 ** e) * U.factor('TimeInterval', unit)


def _case_model(case):
    dt_si = float(_exact_si(case['m'], case['e'], case['unit']))
    dts = [dt_si]
    if case.get('cont'):
        c = case['cont']
        dts.append(float(_exact_si(c['m'], c['e'], c['unit'])))
    dt_max = max(dts)
    # k = Tmax / (w0 * J) = 0.1 / dt_max
    J = 1.0 / 100.0 * dt_max * 10.0
    full = {
        'motor': {'J': [J, 'kgm^2'], 'w0': [100.0, 'rad/s'], 'tmax': [1.0, 'Nm'], 'i0': None, 'imax': None, 'pwm0': 1},
        'chain': [{'type': 'spur', 'n_teeth': 20, 'J': [J / 10, 'kgm^2'], 'link': {'kind': 'joint'}}],
        'load': {'c0': 0.2, 'cw': 0.0, 'csin': 0.0, 'kpos': 1.0, 'ct': 0.0, 'period': 1.0, 'unit': 'Nm'},
        'init': {'pos': [0.0, 'rad'], 'speed': [0.0, 'rad/s']},
        'history': [],
    }
    if case.get('held'):
        # a self-locking worm drive held by a load far above stall (or by a zero duty cycle): nothing moves, the time
        # axis must still be the full grid
        full['chain'] = [{'type': 'worm', 'n_starts': 1, 'J': [J / 10, 'kgm^2'], 'helix': [5, 'deg'], 'pressure': [20, 'deg'],
                          'link': {'kind': 'joint'}},
                         {'type': 'wheel', 'n_teeth': 20, 'J': [J / 10, 'kgm^2'], 'helix': [5, 'deg'], 'pressure': [20, 'deg'],
                          'link': {'kind': 'worm', 'f': 0.3}}]
        full['load']['c0'] = 500.0
        if case['held'] == 'zero-duty':
            full['motor'].update(i0=[0.1, 'A'], imax=[2, 'A'], pwm0=0)
            full['load']['c0'] = 0.1
    return full


def _T(spec):
    """the duration as the user would write it"""
    m, e, n, unit, tunit = spec['m'], spec['e'], spec['n'], spec['unit'], spec['t_unit']
    dt = float(Fr(m, 10 ** e))
    if spec['t_form'] == 'product' and tunit == unit:
        return dt * n
    exact = Fr(m * n, 10 ** e) * U.factor('TimeInterval', unit) / U.factor('TimeInterval', tunit)
    return float(exact)


def check(case) -> Result:
    res = Result()
    full = _case_model(case)
    runs = [case] + ([case['cont']] if case.get('cont') else [])
    stop_on = False
    if case.get('stop') is not None:
        total = sum(float(_exact_si(r['m'], r['e'], r['unit'])) * r['n'] for r in runs[:1])
        # output runs at ~80 rad/s almost at once: position ~ 80 * t
        full['stop'] = {'sensor': 'encoder', 'target': 1, 'op': 'ge', 'threshold': [80.0 * total * case['stop'], 'rad']}
        stop_on = True
    b = S.build(full)
    grid = [Fr(0)]
    t_end = Fr(0)
    viol = []
    stopped = False
    for j, r in enumerate(runs):
        dt = [float(Fr(r['m'], 10 ** r['e'])), r['unit']]
        T = [_T(r), r['t_unit']]
        op = {'op': 'run', 'dt': dt, 'T': T, 'stop': stop_on and j == 0, 'new_solver': bool(j and r.get('new_solver')),
              'dt_inplace': r.get('dt_inplace'), 'T_inplace': r.get('T_inplace')}
        n_before = len(b.powertrain.time)
        try:
            S.run_op(b, op)
        except S.Runaway as ex:
            res.bad('C11/grid-runaway', f'{case}: run {j} (dt={dt}, T={T}) had to be interrupted: {ex}')
            return _finish(res, case)
        except Exception as ex:  # noqa
            res.bad(f'C11/run-raised/{type(ex).__name__}', f'{case}: run {j} (dt={dt}, T={T}): {type(ex).__name__}: {ex}')
            return _finish(res, case)
        dte = _exact_si(r['m'], r['e'], r['unit'])
        start = t_end if not stopped else None
        times = [Fr(x.value) * U.factor('Time', x.unit) for x in b.powertrain.time]
        if start is None:
            start = times[n_before - 1]          # continuing after an early stop: from the last recorded instant
        expect = [start + k * dte for k in range(1, r['n'] + 1)]
        got = times[n_before:] if n_before else times[1:]
        if n_before == 0:
            if not times or times[0] != 0:
                res.bad('C11/first-instant-not-zero', f'{case}: time[0] = {b.powertrain.time[:1]}')
        Tend = start + r['n'] * dte
        tol = Fr(1, 10 ** 9) * max(Tend, dte)
        if op['stop'] and len(got) < r['n']:
            stopped = True
            res.classes += ('stopped-early',)
        elif len(got) != r['n']:
            what = 'one-too-many' if len(got) == r['n'] + 1 else ('one-too-few' if len(got) == r['n'] - 1 else 'count')
            res.bad(f'C11/{"fresh" if j == 0 else "continuation"}/{what}',
                    f'{case}: run {j} dt={dt} T={T}: {len(got)} new instants, expected {r["n"]}; last '
                    f'{b.powertrain.time[-1]!r}, requested end {float(Tend)!r} s')
        for k, (g, e) in enumerate(zip(got, expect)):
            if abs(g - e) > tol:
                res.bad(f'C11/{"fresh" if j == 0 else "continuation"}/instant-off-grid',
                        f'{case}: run {j}: new instant {k + 1} is {float(g)!r} s, grid says {float(e)!r} s')
                break
        if got and max(got) > Tend + tol:
            res.bad(f'C11/{"fresh" if j == 0 else "continuation"}/overruns-T',
                    f'{case}: run {j}: last instant {float(max(got))!r} s beyond the requested end {float(Tend)!r} s')
        t_end = Tend
    if case.get('rerun') and not res.violations:
        # reset, re-apply the initial conditions, run again with the SAME Solver: a fresh grid from 0
        r = case
        try:
            S.run_op(b, {'op': 'reset', 'reinit': True})
            S.run_op(b, {'op': 'run', 'dt': [float(Fr(r['m'], 10 ** r['e'])), r['unit']], 'T': [_T(r), r['t_unit']]})
        except Exception as ex:  # noqa
            res.bad(f'C11/rerun-raised/{type(ex).__name__}', f'{case}: rerun after reset: {type(ex).__name__}: {ex}')
            return _finish(res, case)
        dte = _exact_si(r['m'], r['e'], r['unit'])
        times = [Fr(x.value) * U.factor('Time', x.unit) for x in b.powertrain.time]
        expect = [k * dte for k in range(r['n'] + 1)]
        tol = Fr(1, 10 ** 9) * max(expect[-1], dte)
        if len(times) != len(expect) or any(abs(g - e) > tol for g, e in zip(times, expect)):
            res.bad('C11/rerun-after-reset/not-a-fresh-grid',
                    f'{case}: after reset the same Solver recorded {len(times)} instants from {float(times[0]) if times else None!r} '
                    f's to {float(times[-1]) if times else None!r} s, expected {len(expect)} from 0 to {float(expect[-1])!r} s')
        res.classes += ('rerun',)
    if case.get('second_view') and not res.violations:
        # a second Powertrain object over the same, already simulated and NOT reset, chain: its own time axis is empty,
        # so its first run is a fresh one and must record 0, dt, ..., T; the first powertrain's axis stays as it was
        from gearpy.powertrain import Powertrain
        r = case
        first = b.powertrain
        first_axis = [(x.value, x.unit) for x in first.time]
        try:
            b.powertrain = Powertrain(motor=b.motor)
            b.solver = None
            S.run_op(b, {'op': 'run', 'dt': [float(Fr(r['m'], 10 ** r['e'])), r['unit']], 'T': [_T(r), r['t_unit']]})
        except Exception as ex:  # noqa
            res.bad(f'C11/second-view-raised/{type(ex).__name__}', f'{case}: second Powertrain over the same chain: {type(ex).__name__}: {ex}')
            return _finish(res, case)
        dte = _exact_si(r['m'], r['e'], r['unit'])
        times = [Fr(x.value) * U.factor('Time', x.unit) for x in b.powertrain.time]
        expect = [k * dte for k in range(r['n'] + 1)]
        tol = Fr(1, 10 ** 9) * max(expect[-1], dte)
        if len(times) != len(expect) or any(abs(g - e) > tol for g, e in zip(times, expect)):
            res.bad('C11/second-view/not-a-fresh-grid',
                    f'{case}: a second Powertrain built over the simulated chain recorded {len(times)} instants from '
                    f'{float(times[0]) if times else None!r} s to {float(times[-1]) if times else None!r} s, expected {len(expect)} '
                    f'from 0 to {float(expect[-1])!r} s')
        if [(x.value, x.unit) for x in first.time] != first_axis:
            res.bad('C11/second-view/first-axis-changed', f'{case}: running the second Powertrain changed the time axis of the first')
        res.classes += ('second-view',)
    return _finish(res, case)


def _dyadic(m, e):
    return Fr(m, 10 ** e).denominator & (Fr(m, 10 ** e).denominator - 1) == 0


def _finish(res, case):
    res.nontrivial = (not _dyadic(case['m'], case['e'])) or case['unit'] != case['t_unit']
    res.classes += (f'unit:{case["unit"]}', 'held-drive' if case.get('held') else 'free-drive', 'cont' if case.get('cont') else 'fresh-only',
                    'decimal' if not _dyadic(case['m'], case['e']) else 'dyadic',
                    'T-other-unit' if case['unit'] != case['t_unit'] else f'T-{case["t_form"]}')
    return res


@st.composite
def s_run(draw, max_n=200, min_n=2):
    unit = draw(st.sampled_from(list(U.UNITS['TimeInterval'])))
    r = {'m': draw(st.integers(1, 999)), 'e': draw(st.integers(0, 4)), 'n': draw(st.integers(min_n, max_n)),
         'unit': unit, 't_form': draw(st.sampled_from(['product', 'literal'])),
         't_unit': unit if draw(st.integers(0, 2)) else draw(st.sampled_from(list(U.UNITS['TimeInterval'])))}
    if draw(st.integers(0, 5)) == 0:
        # the TimeInterval objects were converted in place by the user before being handed to run()
        r[draw(st.sampled_from(['T_inplace', 'dt_inplace']))] = draw(st.sampled_from(list(U.UNITS['TimeInterval'])))
    return r


@st.composite
def s_case(draw, max_n=200):
    c = draw(s_run(max_n))
    if draw(st.integers(0, 2)) == 0:
        c['cont'] = draw(s_run(max_n // 2))
        c['cont']['new_solver'] = draw(st.integers(0, 2)) == 0      # the continuation may use a new Solver object
    if draw(st.integers(0, 4)) == 0:
        c['held'] = draw(st.sampled_from(['overload', 'zero-duty']))
    if draw(st.integers(0, 4)) == 0:
        c['rerun'] = True
    elif draw(st.integers(0, 5)) == 0:
        c['second_view'] = True      # a second Powertrain over the simulated chain, run afresh
    c['stop'] = draw(st.floats(0.05, 1.5)) if draw(st.integers(0, 4 if not c.get('cont') else 1)) == 0 \
        and not c.get('held') else None
    return c


@st.composite
def s_case_long(draw, max_n):
    """tens of thousands of steps: the rounding of T/dt grows with the step count, the guard must grow with it"""
    c = draw(s_run(max_n, min_n=8192))
    if draw(st.integers(0, 2)) == 0:
        c['cont'] = draw(s_run(max_n, min_n=8192))
        c['cont']['new_solver'] = draw(st.booleans())
    c['stop'] = None
    return c


def parts(tier):
    if tier == 'quick':
        return [Part('grids', check, strategy=s_case(100), examples=600, shards=4),
                Part('long-grids', check, strategy=s_case_long(30000), examples=6, shards=4)]
    return [Part('grids', check, strategy=s_case(200), examples=6000, shards=16),
            Part('long-grids', check, strategy=s_case_long(150000), examples=20, shards=16)]
