"""C14 — duty-cycle arbitration: one rule wins, default 1, always within [-1, 1]."""
from __future__ import annotations

import math

from hypothesis import strategies as st

from vp.runner import Part, Result
from vp.oracle import units_si as U
from vp.oracle import rules as RU
from vp import build as B
from vp import gen as G
from vp import model as M
from vp import sim as S
from vp import invariants as I
from vp.props import c15 as C15

ID = 'C14'
RULE = ('direct (Hypothesis): a PWMControl with 0..4 rules - built-in rules with arbitrary, overlapping or disjoint '
        'windows and stub RuleBase objects returning generated values (None, exact +-1, 0, values far outside '
        '[-1,1], ints) - and a state set through public attributes; the proposals are each rule\'s own apply() '
        '(C15 judges those); apply_rules() must raise ValueError when two or more are not None (leaving the duty '
        'cycle untouched), set the single proposal clipped to [-1,1], or set 1 when there is none. simulation '
        '(Hypothesis): whole runs with overlapping ConstantPWM windows and out-of-range stubs: every recorded duty '
        'cycle lies in [-1,1] and equals the arbitration of the proposals predicted for that instant; at the first '
        'instant with two applicable rules the run raises ValueError and no sample is recorded at or after it. '
        'Non-trivial = two or more rules with overlapping windows, or a proposal outside [-1,1]; distinct = '
        'canonical JSON.')
ASSUMPTIONS = ['proposals that are NaN are outside the domain', 'window edges within 1e-9 of an instant that are not '
               'binary-exact are not predicted']


def _clip(v):
    return min(max(v, -1), 1)


def check_direct(case) -> Result:
    res = Result()
    base = {k: v for k, v in case.items() if k not in ('rules', 'state')}
    base['history'] = []
    split = case.get('late_from')
    base['control'] = case['rules'] if split is None else case['rules'][:split]
    try:
        b = S.build(base)
    except Exception as e:  # noqa
        res.classes += (f'build-rejected:{type(e).__name__}',)
        res.build_error = e
        return res
    stt = case['state']
    pt = b.powertrain
    pt.update_time(B.q('Time', stt['t']))
    for i, th in stt.get('theta', {}).items():
        b.elements[int(i)].angular_position = B.q('AngularPosition', th)
    for i, w in stt.get('speed', {}).items():
        b.elements[int(i)].angular_speed = B.q('AngularSpeed', w)
    if stt.get('load') is not None:
        b.motor.load_torque = B.q('Torque', stt['load'])
    b.motor.pwm = stt.get('pwm_before', 1)
    if split is not None:
        # the control is used once with its first rules, then the remaining rules are added: they count from then on
        try:
            b.control.apply_rules()
        except ValueError:
            pass
        try:
            S.add_rules(b, case['rules'][split:])
        except Exception:  # noqa
            res.classes += ('rule-rejected',)
            return res
        b.motor.pwm = stt.get('pwm_before', 1)
        res.classes += ('rules-added-after-first-use',)
    props = []
    for r, rule in zip(case['rules'], b.rules):
        if r['rule'] == 'stub':
            # a stub already called once (before the late rules were added) answers with its next value
            early = split is not None and case['rules'].index(r) < split
            props.append(r['values'][(1 if early else 0) % len(r['values'])])
        else:
            try:
                props.append(rule.apply())
            except Exception as e:  # noqa
                res.classes += ('rule-apply-raises',)
                return res
    # stubs were not called yet (their first value is predicted), built-in rules are pure functions of the state
    act = [p for p in props if p is not None]
    if any(isinstance(p, float) and math.isnan(p) for p in act):
        res.classes += ('nan-proposal',)
        return res
    before = b.motor.pwm
    try:
        b.control.apply_rules()
        raised = None
    except Exception as e:  # noqa
        raised = e
    after = b.motor.pwm
    res.classes += (f'applicable:{min(len(act), 3)}', f'rules:{len(props)}')
    if len(act) >= 2:
        if not isinstance(raised, ValueError):
            res.bad('C14/direct/conflict-not-reported', f'proposals {props}: expected ValueError, got {raised!r}; duty '
                    f'cycle {before!r} -> {after!r}')
        elif after != before:
            res.bad('C14/direct/conflict-changes-duty-cycle', f'proposals {props}: ValueError raised but duty cycle '
                    f'{before!r} -> {after!r}')
    else:
        exp = _clip(act[0]) if act else 1
        if raised is not None:
            res.bad(f'C14/direct/raises/{type(raised).__name__}', f'proposals {props}: apply_rules raised '
                    f'{type(raised).__name__}: {raised}')
        elif not (after == exp):
            what = 'default' if not act else ('saturation' if abs(act[0]) > 1 else 'value')
            res.bad(f'C14/direct/{what}', f'proposals {props}: duty cycle {after!r}, expected {exp!r}')
        elif not (-1 <= after <= 1):
            res.bad('C14/direct/out-of-range', f'proposals {props}: duty cycle {after!r}')
    res.nontrivial = len(act) >= 2 or any(abs(p) > 1 for p in act)
    return res


def check_sim(case) -> Result:
    res = Result()
    try:
        b, traces, err = S.simulate(case)
    except Exception as e:  # noqa
        res.classes += (f'build-rejected:{type(e).__name__}',)
        res.build_error = e
        return res
    mdl = b.model
    offset = 0
    if case.get('lead_in'):
        # the first segment ran open loop (no motor control handed to run()); the control comes with the continuation
        if not traces:
            res.classes += ('lead-in-raised',)
            return res
        offset = traces[0].n
        res.classes += ('open-loop-lead-in',)
    overl, outside, amb_seen = _judge(case, S.Trace(b), err, res, 'simulation', offset)
    if case.get('rerun') and not case.get('lead_in') and err is None and not res.violations:
        # reset, re-apply the initial conditions, run again with the SAME PWMControl and rule objects: the arbitration
        # of the second epoch is judged on its own time axis
        err2 = None
        try:
            S.run_op(b, {'op': 'reset', 'reinit': True})
            for r in b.rules:
                if hasattr(r, 'calls'):
                    r.calls = 0
            S.run_op(b, dict(case['history'][0], new_solver=bool(case['rerun'].get('new_solver'))))
        except Exception as e:  # noqa
            err2 = e
        _judge(case, S.Trace(b), err2, res, 'simulation/rerun')
        res.classes += ('rerun',)
    res.nontrivial = overl or outside
    res.classes += ('self-locking' if mdl.self_locking else 'free', 'conflict' if overl else 'no-conflict', 'out-of-range-proposal' if outside else 'in-range',
                    'ambiguous' if amb_seen else 'predicted')
    return res


def _judge(case, tr, err, res, tag, offset=0):
    pwm = tr.get(0, 'pwm') if 'pwm' in tr.vars[0] else []
    n_rec = len(pwm)
    times = tr.t
    # predicted proposals per instant (constant windows + stubs only)
    conflict_at = None
    amb_seen = False
    overl = False
    outside = False
    pwm0 = case['motor'].get('pwm0', 1)
    for k in range(len(times)):
        props = []
        amb = False
        if k < offset:
            if k < n_rec and not (pwm[k] == pwm0):
                res.bad(f'C14/{tag}/open-loop-duty-cycle', f'instant {k} of the open-loop segment: recorded duty cycle '
                        f'{pwm[k]!r}, the motor was left at {pwm0!r}')
                break
            continue
        for r in case['control']:
            if r['rule'] == 'constant':
                a, d = U.si('Time', *r['start']), U.si('TimeInterval', *r['duration'])
                if min(abs(times[k] - a), abs(times[k] - (a + d))) <= 1e-9 * max(a + d, 1e-300) \
                        and not (times[k] == 0 and a == 0):          # 0 == 0 is exact in every unit
                    amb = True
                props.append(r['value'] if RU.constant_active(times[k], a, d) else None)
            else:
                props.append(r['values'][(k - offset) % len(r['values'])])
        if amb:
            amb_seen = True
            break
        act = [p for p in props if p is not None]
        if len(act) >= 2:
            conflict_at = k
            overl = True
            break
        if act and abs(act[0]) > 1:
            outside = True
        if k < n_rec:
            exp = _clip(act[0]) if act else 1
            if not (pwm[k] == exp):
                res.bad(f'C14/{tag}/arbitration', f'instant {k} (t={times[k]!r}): recorded duty cycle {pwm[k]!r}, '
                        f'proposals {props} -> expected {exp!r}')
                break
    if n_rec and not all(-1 <= x <= 1 for x in pwm):
        res.bad(f'C14/{tag}/recorded-out-of-range', f'recorded duty cycles outside [-1,1]: '
                f'{[float(x) for x in pwm if not -1 <= x <= 1][:3]}')
    if not amb_seen:
        if conflict_at is not None:
            if not isinstance(err, ValueError):
                res.bad(f'C14/{tag}/conflict-not-reported', f'two rules applicable at instant {conflict_at} '
                        f'(t={times[conflict_at]!r}) but the run ended with {err!r} after recording {n_rec} samples')
            elif n_rec != conflict_at:
                res.bad(f'C14/{tag}/recorded-past-conflict', f'two rules applicable at instant {conflict_at} but '
                        f'{n_rec} samples were recorded')
        elif err is not None:
            res.bad(f'C14/{tag}/raises/{type(err).__name__}', f'no conflict predicted but the run raised '
                    f'{type(err).__name__}: {err}')
    return overl, outside, amb_seen


_stub_vals = st.one_of(st.none(), st.none(), st.sampled_from([1, -1, 0, 1.0, -1.0, 0.0, 1e6, -1e6, 5, -3, 1.0000000000000002]),
                       st.floats(-3, 3))


@st.composite
def s_direct(draw):
    case, mdl = draw(C15.s_base(max_len=3))
    n = mdl.n
    rules = []
    stt = {'t': G.qty('Time', draw(st.floats(0, 100)), draw(G.s_unit('Time'))), 'theta': {}, 'speed': {},
           'load': G.qty('Torque', mdl.Tmax * draw(st.floats(-0.5, 0.9)), draw(G.s_unit('Torque'))),
           'pwm_before': draw(st.sampled_from([1, 0.5, -0.25, 0]))}
    t = U.si('Time', *stt['t'])
    for _ in range(draw(st.integers(0, 4))):
        kind = draw(st.sampled_from(['stub', 'stub', 'constant', 'constant', 'reach', 'ramp', 'limit']))
        if kind == 'stub':
            rules.append({'rule': 'stub', 'values': [draw(_stub_vals)]})
        elif kind == 'constant':
            inside = draw(st.booleans())
            a = max(0.0, t - draw(st.floats(0, 10))) if inside else t + draw(st.floats(0.1, 10))
            rules.append({'rule': 'constant', 'start': G.qty('Time', a, draw(G.s_unit('Time'))),
                          'duration': G.qty('TimeInterval', draw(st.floats(10.5, 50)), draw(G.s_unit('TimeInterval'))),
                          'value': draw(st.floats(-1, 1))})
        else:
            enc = draw(st.integers(0, n - 1))
            th = draw(st.floats(-50, 50))
            stt['theta'].setdefault(str(enc), G.qty('AngularPosition', th, draw(G.s_unit('AngularPosition'))))
            th = U.si('AngularPosition', *stt['theta'][str(enc)])
            tgt = th + draw(st.floats(-20, 20))
            if kind == 'reach':
                rules.append({'rule': 'reach', 'enc': enc, 'target': G.qty('AngularPosition', tgt, 'rad'),
                              'braking': G.qty('Angle', draw(st.floats(0.5, 30)), draw(G.s_unit('Angle')))})
            elif kind == 'ramp':
                rules.append({'rule': 'ramp', 'enc': enc, 'target': G.qty('AngularPosition', tgt if tgt else 1.0, 'rad'),
                              'mult': draw(st.floats(1.1, 4)), 'pwm_min': 0.2})
            else:
                stt['speed'].setdefault('0', G.qty('AngularSpeed', mdl.w0 * draw(st.floats(0, 1)), draw(G.s_unit('AngularSpeed'))))
                rules.append({'rule': 'limit', 'enc': enc, 'tach': 0, 'target': G.qty('AngularPosition', tgt, 'rad'),
                              'limit': G.qty('Current', mdl.i0 + (mdl.imax - mdl.i0) * draw(st.floats(0.05, 1.5)),
                                             draw(G.s_unit('Current')))})
    case['rules'], case['state'] = rules, stt
    if len(rules) >= 1 and draw(st.integers(0, 3)) == 0:
        case['late_from'] = draw(st.integers(0, len(rules) - 1))
    return case


@st.composite
def s_sim(draw, max_steps=40):
    # self-locking chains included: arbitration must be applied at every instant, also while the powertrain is held
    case, mdl = draw(C15.s_base(max_len=3, locking=draw(st.sampled_from([False, None, True]))))
    if mdl.self_locking and draw(st.booleans()):
        case['load']['c0'] = mdl.stall_out * draw(st.floats(1.0, 5.0)) * draw(st.sampled_from([1, -1]))
    run = G.s_run(draw, mdl, min_steps=5, max_steps=max_steps)
    T = U.si('TimeInterval', *run['T'])
    rules = []
    for _ in range(draw(st.integers(0, 4))):
        if draw(st.integers(0, 3)) == 0:
            vals = draw(st.lists(_stub_vals, min_size=1, max_size=6))
            if draw(st.booleans()):
                vals = [None] * draw(st.integers(1, 8)) + vals
            rules.append({'rule': 'stub', 'values': vals})
        else:
            a = T * draw(st.floats(0, 1.0))
            rules.append({'rule': 'constant', 'start': G.qty('Time', a, draw(G.s_unit('Time'))),
                          'duration': G.qty('TimeInterval', T * draw(st.floats(0.02, 0.6)), draw(G.s_unit('TimeInterval'))),
                          'value': G._duty(draw(st.one_of(st.floats(-1, 1), st.sampled_from([1, -1, 0]))))})
    case['control'] = rules
    case['history'] = [dict(run, control=True)]
    if draw(st.integers(0, 3)) == 0:
        case['rerun'] = {'new_solver': draw(st.booleans())}
    elif draw(st.integers(0, 3)) == 0:
        lead = G.s_run(draw, mdl, min_steps=2, max_steps=8)
        case['lead_in'] = True
        case['history'] = [dict(lead, control=False), dict(run, control=True, new_solver=draw(st.integers(0, 2)) == 0)]
        shift = U.si('TimeInterval', *lead['T'])
        for r in rules:
            if r['rule'] == 'constant':            # keep the windows inside the controlled segment
                r['start'] = G.qty('Time', U.si('Time', *r['start']) + shift, r['start'][1])
    if draw(st.integers(0, 2)) == 0:
        # a preset duty cycle: with a motor control attached it must give way to the arbitration from the first instant
        case['motor']['pwm0'] = draw(st.sampled_from([0.5, -0.5, 0.3, -1, 0]))
    return case


def parts(tier):
    if tier == 'quick':
        return [Part('direct', check_direct, strategy=s_direct(), examples=400, shards=4),
                Part('simulation', check_sim, strategy=s_sim(), examples=160, shards=4)]
    return [Part('direct', check_direct, strategy=s_direct(), examples=6000, shards=8),
            Part('simulation', check_sim, strategy=s_sim(120), examples=1500, shards=8)]
