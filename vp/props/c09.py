"""C09 — gear tooth force and stresses equal the documented formulas."""
from __future__ import annotations

import itertools
import math

from hypothesis import strategies as st

from vp.runner import Part, Result
from vp.oracle import units_si as U
from vp.oracle import gears as G
from vp import build as B

ID = 'C09'
RULE = ('lewis-teeth (exhaustive): every teeth number 10..600 (table ends at 500) for spur gears and for helical '
        'gears at 8 helix angles: lewis_factor vs the oracle\'s own table/interpolation/virtual-teeth formula. '
        'subsets (exhaustive): every subset of the optional data (module, face width, elastic modulus / worm '
        'reference diameter) of a gear and of its mate, both roles, spur / helical / worm pairs: the three '
        '"is computable" flags, the values, and ValueError for a contact stress whose mate lacks module or '
        'modulus. pairs (Hypothesis): random teeth, helix 0..89 deg, all four worm pressure angles, module / '
        'face width / moduli over three decades in any unit, random subsets, driving != load torque of either '
        'sign set through the public attributes; force, bending and contact stress of BOTH gears vs the oracle '
        'formulas; in a third of the cases the gear is then re-mated with a second partner and checked again. Non-trivial = the gear under test has a module, teeth not a table node, driving != load '
        'torque; distinct = canonical JSON.')
ASSUMPTIONS = [
    'oracle formulas in vp/oracle/gears.py; the base helix angle uses tan(beta) (the docstring\'s cos(beta) is a '
    'typo: it would give a 0-deg helical gear 1.9 z virtual teeth) and the worm gear force carries tan(beta) as in '
    'worked example 7 of the documentation',
    'relative tolerance 1e-9',
]
TOL = 1e-9


def _close(a, b):
    return abs(a - b) <= TOL * max(abs(a), abs(b)) + 1e-300


def _has(spec, k):
    return spec.get(k) is not None


def expected_flags(spec, mate, mated):
    t = spec['type']
    if t == 'worm':
        return {'tf': _has(spec, 'ref_diameter')}
    tf = _has(spec, 'module')
    bs = tf and _has(spec, 'face_width')
    cs = bs and _has(spec, 'E') and t != 'wheel'
    if t == 'wheel':
        cs = False
        if mated:
            bs = bs and _has(mate, 'ref_diameter')
    return {'tf': tf, 'bs': bs, 'cs': cs}


def _flags(g):
    out = {'tf': g.tangential_force_is_computable}
    if hasattr(g, 'bending_stress_is_computable'):
        out['bs'] = g.bending_stress_is_computable
        out['cs'] = g.contact_stress_is_computable
    return out


def _si_len(p):
    return U.si('Length', *p)


def check_one(g, spec, mate_spec, role, drive_si, load_si, res, tag):
    """force / stresses of gear g (already mated, torques set) against the oracle"""
    t = spec['type']
    exp = expected_flags(spec, mate_spec, True)
    got = _flags(g)
    if got != exp:
        res.bad(f'C09/flags/{t}', f'{tag}: flags {got}, expected {exp} for {spec} mated with {mate_spec}')
        return
    ref = load_si if role == 'master' else drive_si
    if not exp['tf']:
        return
    g.compute_tangential_force()
    F = U.si('Force', g.tangential_force.value, g.tangential_force.unit)
    if t == 'worm':
        d = _si_len(spec['ref_diameter'])
        Fe = G.worm_gear_force(ref, d, U.si('Angle', *spec['helix']))
    else:
        m = _si_len(spec['module'])
        d = spec['n_teeth'] * m
        Fe = G.tangential_force(ref, d)
        dd = g.reference_diameter
        if not _close(U.si('Length', dd.value, dd.unit), d):
            res.bad(f'C09/reference-diameter/{t}', f'{tag}: reference diameter {dd!r}, expected {d} m')
    if not _close(F, Fe):
        other = drive_si if role == 'master' else load_si
        what = 'wrong-reference-torque' if t != 'worm' and _close(F, G.tangential_force(other, d)) else 'value'
        res.bad(f'C09/force/{t}/{what}', f'{tag}: tangential force {F!r} N, expected {Fe!r} N ({role}, '
                f'drive {drive_si} Nm, load {load_si} Nm)')
        return
    if not exp.get('bs'):
        return
    b = _si_len(spec['face_width'])
    if t == 'spur':
        Y = G.lewis(spec['n_teeth'])
        Se = G.bending(Fe, m, b, Y)
    elif t == 'helical':
        beta = U.si('Angle', *spec['helix'])
        Y = G.lewis_helical(spec['n_teeth'], beta)
        Se = G.bending(Fe, m, b, Y)
    else:
        _, (_, Y) = G.worm_pressure_row(U.si('Angle', *spec['pressure']))
        Se = G.wheel_bending(Fe, spec['n_teeth'], b, _si_len(mate_spec['ref_diameter']),
                             U.si('Angle', *mate_spec['helix']), Y)
    if not _close(float(g.lewis_factor), Y):
        res.bad(f'C09/lewis-factor/{t}', f'{tag}: lewis factor {g.lewis_factor!r}, expected {Y!r} for {spec}')
    g.compute_bending_stress()
    S = U.si('Stress', g.bending_stress.value, g.bending_stress.unit)
    if not _close(S, Se):
        res.bad(f'C09/bending/{t}', f'{tag}: bending stress {S!r} Pa, expected {Se!r} Pa for {spec} / {mate_spec}')
    if not exp.get('cs'):
        return
    mate_ok = _has(mate_spec, 'module') and _has(mate_spec, 'E')
    try:
        g.compute_contact_stress()
        raised = None
    except ValueError as e:
        raised = e
    if not mate_ok:
        if raised is None:
            res.bad(f'C09/contact/{t}/number-with-incomplete-mate',
                    f'{tag}: contact stress {g.contact_stress!r} although the mate lacks module or modulus')
        return
    if raised is not None:
        res.bad(f'C09/contact/{t}/raises-with-complete-mate', f'{tag}: ValueError({raised})')
        return
    C = U.si('Stress', g.contact_stress.value, g.contact_stress.unit)
    d2 = mate_spec['n_teeth'] * _si_len(mate_spec['module'])
    e1, e2 = U.si('Stress', *spec['E']), U.si('Stress', *mate_spec['E'])
    if t == 'spur':
        Ce = G.contact_spur(Fe, b, d, d2, e1, e2)
    else:
        Ce = G.contact_helical(Fe, b, U.si('Angle', *spec['helix']), d, d2, e1, e2)
    if not _close(C, Ce):
        res.bad(f'C09/contact/{t}/value', f'{tag}: contact stress {C!r} Pa, expected {Ce!r} Pa for {spec} / {mate_spec}')


def check_pair(case) -> Result:
    import gearpy.utils as gu
    res = Result()
    gs, hs = case['g'], case['h']
    try:
        g = B.make_element(gs, 'g')
        h = B.make_element(hs, 'h')
    except Exception as e:  # noqa
        return Result(classes=(f'element-rejected:{type(e).__name__}',))
    # flags before any mating depend on own data only
    for x, s in ((g, gs), (h, hs)):
        if _flags(x) != expected_flags(s, None, False):
            res.bad(f'C09/flags-unmated/{s["type"]}', f'flags {_flags(x)} expected {expected_flags(s, None, False)} for {s}')
    master, slave = (g, h) if case['role'] == 'master' else (h, g)
    try:
        if case['pair'] == 'worm':
            gu.add_worm_gear_mating(master=master, slave=slave, friction_coefficient=case.get('f', 0.05))
        else:
            gu.add_gear_mating(master=master, slave=slave, efficiency=0.9)
    except Exception as e:  # noqa
        return Result(classes=(f'mating-rejected:{type(e).__name__}',))
    T = U.cls('Torque')
    drive_si, load_si = U.si('Torque', *case['drive']), U.si('Torque', *case['load'])
    for who, attr, unit in case.get('reexpress') or []:
        # the user re-expresses a parameter of a gear in place after the mating (same physical quantity)
        q = getattr(g if who == 'g' else h, attr, None)
        if q is not None and hasattr(q, 'to'):
            q.to(unit, inplace=True)
            res.classes += ('parameter-re-expressed',)
    for x in (g, h):
        x.driving_torque = T(*case['drive'])
        x.load_torque = T(*case['load'])
    try:
        check_one(g, gs, hs, case['role'], drive_si, load_si, res, 'g')
        check_one(h, hs, gs, 'slave' if case['role'] == 'master' else 'master', drive_si, load_si, res, 'h')
        if case.get('deepcopy') and not res.violations:
            # a deep copy of the mated pair (a user copying a design to try other loads) is judged on its OWN torques
            import copy
            g2c, h2c = copy.deepcopy((g, h))
            d2, l2 = U.si('Torque', *case['deepcopy']['drive']), U.si('Torque', *case['deepcopy']['load'])
            for x in (g2c, h2c):
                x.driving_torque = T(*case['deepcopy']['drive'])
                x.load_torque = T(*case['deepcopy']['load'])
            n0 = len(res.violations)
            check_one(g2c, gs, hs, case['role'], d2, l2, res, 'copy of g')
            check_one(h2c, hs, gs, 'slave' if case['role'] == 'master' else 'master', d2, l2, res, 'copy of h')
            for v in res.violations[n0:]:
                v.sig = v.sig + '/deep-copy'
            res.classes += ('deep-copied',)
        compat_touched = any(who == 'g' and attr in ('module', 'helix_angle', 'pressure_angle')
                             for who, attr, unit in case.get('reexpress') or [])
        if case.get('h2') and compat_touched:
            # a module / angle of g re-expressed in place may now sit an ulp away from the new partner's in the SAME unit,
            # where comparisons are exact: whether the pair is still compatible is too close to call - not re-mated
            res.classes += ('re-mating-skipped',)
        elif case.get('h2') and not res.violations:
            # the same gear re-mated with another partner: everything mate-dependent must follow the new mate
            h2s = case['h2']
            h2 = B.make_element(h2s, 'h2')
            master, slave = (g, h2) if case['role'] == 'master' else (h2, g)
            if case['pair'] == 'worm':
                gu.add_worm_gear_mating(master=master, slave=slave, friction_coefficient=case.get('f', 0.05))
            else:
                gu.add_gear_mating(master=master, slave=slave, efficiency=0.9)
            h2.driving_torque = T(*case['drive'])
            h2.load_torque = T(*case['load'])
            n0 = len(res.violations)
            check_one(g, gs, h2s, case['role'], drive_si, load_si, res, 'g re-mated')
            check_one(h2, h2s, gs, 'slave' if case['role'] == 'master' else 'master', drive_si, load_si, res, 'h2')
            for v in res.violations[n0:]:
                v.sig = v.sig + '/after-re-mating'
            res.classes += ('re-mated',)
    except Exception as e:  # noqa
        res.bad(f'C09/exception/{type(e).__name__}', f'{case}: {type(e).__name__}: {e}')
    z = gs.get('n_teeth', 0)
    res.nontrivial = bool(_has(gs, 'module') and z not in G._LX and drive_si != load_si)
    res.classes += (f'pair:{case["pair"]}', f'role:{case["role"]}',
                   'g:' + ''.join(k[0] for k in ('module', 'face_width', 'E', 'ref_diameter') if _has(gs, k)),
                   'h:' + ''.join(k[0] for k in ('module', 'face_width', 'E', 'ref_diameter') if _has(hs, k)))
    return res


def check_lewis(case) -> Result:
    res = Result()
    z = case['z']
    if case['type'] == 'spur':
        g = B.make_element({'type': 'spur', 'n_teeth': z, 'module': [1, 'mm'], 'face_width': [5, 'mm']})
        Y = G.lewis(z)
    else:
        g = B.make_element({'type': 'helical', 'n_teeth': z, 'module': [1, 'mm'], 'face_width': [5, 'mm'],
                            'helix': case['helix']})
        Y = G.lewis_helical(z, U.si('Angle', *case['helix']))
    got = float(g.lewis_factor)
    if not _close(got, Y):
        res.bad(f'C09/lewis-factor/{case["type"]}', f'{case}: lewis factor {got!r}, expected {Y!r}')
    res.nontrivial = z not in G._LX
    res.classes = (case['type'],)
    return res


HELIX_ENUM = [[0, 'deg'], [5, 'deg'], [15, 'deg'], [0.5, 'rad'], [30, 'deg'], [45, 'deg'], [3600, 'arcmin'], [85, 'deg']]


def enum_lewis():
    for z in range(10, 601):
        yield {'type': 'spur', 'z': z}
    for z in range(10, 601):
        for h in HELIX_ENUM:
            yield {'type': 'helical', 'z': z, 'helix': h}


def _subset(spec, keys, mask, values):
    out = dict(spec)
    for i, k in enumerate(keys):
        if mask >> i & 1:
            out[k] = values[k]
    return out


def enum_subsets():
    vals_g = {'module': [2, 'mm'], 'face_width': [1.5, 'cm'], 'E': [200, 'GPa']}
    vals_h = {'module': [0.002, 'm'], 'face_width': [12, 'mm'], 'E': [110000, 'MPa']}
    keys = ('module', 'face_width', 'E')
    for pair in ('spur', 'helical'):
        base = {'type': pair, 'helix': [18, 'deg']} if pair == 'helical' else {'type': pair}
        for role in ('master', 'slave'):
            for mg in range(8):
                for mh in range(8):
                    yield {'pair': pair, 'role': role,
                           'g': _subset(dict(base, n_teeth=23), keys, mg, vals_g),
                           'h': _subset(dict(base, n_teeth=57), keys, mh, vals_h),
                           'drive': [3.5, 'Nm'], 'load': [-1200, 'mNm']}
    for role in ('master', 'slave'):
        for mg in range(4):
            for mh in range(2):
                for pa in G.WORM:
                    yield {'pair': 'worm', 'role': role, 'f': 0.05,
                           'g': _subset({'type': 'wheel', 'n_teeth': 41, 'helix': [12, 'deg'], 'pressure': [pa, 'deg']},
                                        ('module', 'face_width'), mg, vals_g),
                           'h': _subset({'type': 'worm', 'n_starts': 2, 'helix': [12, 'deg'], 'pressure': [pa, 'deg']},
                                        ('ref_diameter',), mh, {'ref_diameter': [16, 'mm']}),
                           'drive': [3.5, 'Nm'], 'load': [900, 'mNm']}


def _qs(kind, lo, hi, signed=False):
    mag = st.builds(lambda m, e: m * 10.0 ** e, st.floats(1, 10, exclude_max=True), st.integers(lo, hi))
    if signed:
        mag = st.one_of(mag, mag.map(lambda x: -x))
    return st.tuples(mag, st.sampled_from(list(U.UNITS[kind]))).map(
        lambda t: [t[0] / U.factor_f(kind, t[1]), t[1]])


def _angle(deg_strategy):
    return st.tuples(deg_strategy, st.sampled_from(list(U.UNITS['Angle']))).map(
        lambda t: [math.radians(t[0]) / U.factor_f('Angle', t[1]), t[1]])


@st.composite
def s_pair(draw):
    pair = draw(st.sampled_from(['spur', 'helical', 'worm']))
    role = draw(st.sampled_from(['master', 'slave']))
    teeth = st.one_of(st.integers(10, 120), st.integers(10, 600))

    def opt(s, p=4):
        return draw(s) if draw(st.integers(0, p)) > 0 else None
    case = {'pair': pair, 'role': role, 'drive': draw(_qs('Torque', -3, 3, True)), 'load': draw(_qs('Torque', -3, 3, True))}
    if pair in ('spur', 'helical'):
        mod = draw(_qs('Length', -4, -2))
        mod2 = [U.si('Length', *mod) / U.factor_f('Length', u2), u2] if (u2 := draw(st.sampled_from(list(U.UNITS['Length'])))) else mod
        g = {'type': pair, 'n_teeth': draw(teeth), 'module': mod if draw(st.integers(0, 5)) else None,
             'face_width': opt(_qs('Length', -3, -1)), 'E': opt(_qs('Stress', 9, 11))}
        h = {'type': pair, 'n_teeth': draw(teeth), 'module': mod2 if draw(st.integers(0, 5)) else None,
             'face_width': opt(_qs('Length', -3, -1)), 'E': opt(_qs('Stress', 9, 11))}
        if pair == 'helical':
            hx = draw(_angle(st.one_of(st.floats(0, 89), st.sampled_from([0.0, 20.0, 45.0]))))
            g['helix'] = hx
            h['helix'] = hx
    else:
        pa = draw(st.sampled_from(list(G.WORM)))
        hx = draw(_angle(st.floats(1, G.WORM[pa][0] * 0.999)))
        case['f'] = draw(st.sampled_from([0.0, 0.01, 0.02, 0.05]))
        g = {'type': 'wheel', 'n_teeth': draw(teeth), 'helix': hx, 'pressure': [pa, 'deg'],
             'module': draw(_qs('Length', -4, -2)) if draw(st.integers(0, 5)) else None,
             'face_width': opt(_qs('Length', -3, -1))}
        hx_worm = hx if draw(st.integers(0, 2)) else draw(_angle(st.floats(1, G.WORM[pa][0] * 0.999)))
        h = {'type': 'worm', 'n_starts': draw(st.integers(1, 4)), 'helix': hx_worm, 'pressure': [pa, 'deg'],
             'ref_diameter': opt(_qs('Length', -3, -1))}
    case['g'], case['h'] = g, h
    if draw(st.integers(0, 4)) == 0:
        kinds = {'module': 'Length', 'face_width': 'Length', 'reference_diameter': 'Length', 'elastic_modulus': 'Stress',
                 'helix_angle': 'Angle', 'pressure_angle': 'Angle'}
        # (one conversion per quantity: a round trip back into the partner's unit may move the value by an ulp, and
        # same-unit comparisons are exact)
        who_ = draw(st.sampled_from(['g', 'h']))
        case['reexpress'] = [[who_, a_, draw(st.sampled_from(list(U.UNITS[kinds[a_]])))]
                             for a_ in draw(st.lists(st.sampled_from(sorted(kinds)), min_size=1, max_size=3, unique=True))]
    if draw(st.integers(0, 3)) == 0:
        case['deepcopy'] = {'drive': draw(_qs('Torque', -3, 3, True)), 'load': draw(_qs('Torque', -3, 3, True))}
    if draw(st.integers(0, 2)) == 0:
        # a second partner for g (re-mating): same compatibility data, other teeth / width / modulus / diameter
        h2 = dict(h)
        if pair == 'worm':
            h2['n_starts'] = draw(st.integers(1, 4))
            h2['ref_diameter'] = opt(_qs('Length', -3, -1), 2)
        else:
            h2['n_teeth'] = draw(teeth)
            h2['face_width'] = opt(_qs('Length', -3, -1))
            h2['E'] = opt(_qs('Stress', 9, 11), 2)
        case['h2'] = h2
    return case


def check_in_simulation(case) -> Result:
    """recorded force / stresses at every instant recomputed from the torques recorded at that instant"""
    import numpy as np
    from vp import sim as S
    from vp import invariants as I
    from vp import simprops as SP
    res = Result()
    r = SP.simulate_checked(case, res, ID)
    if r is None:
        return res
    b, traces, err = r
    if not traces:
        return res
    tr = traces[-1]
    mdl = b.model
    if not I.complete(tr) or not I.finite_trace(tr):
        res.classes += ('incomplete-or-nonfinite-trace',)
        return res
    specs = mdl.elements
    n_checked = 0
    for i in range(1, mdl.n):
        sp = specs[i]
        up = sp['link']['kind'] in ('gear', 'worm')
        down = i + 1 < mdl.n and specs[i + 1]['link']['kind'] in ('gear', 'worm')
        if not (up or down):
            continue
        role = 'master' if down else 'slave'
        mate = specs[i + 1] if down else specs[i - 1]
        exp = expected_flags(sp, mate, True)
        rec = tr.vars[i]
        for key, var in (('tf', 'tangential force'), ('bs', 'bending stress'), ('cs', 'contact stress')):
            if exp.get(key, False) != (var in rec and rec[var] is not None and len(rec[var]) == tr.n):
                res.bad(f'C09/in-simulation/recorded-variables/{sp["type"]}',
                        f'element {i} ({sp["type"]}, {role}) records {sorted(rec)}, expected flags {exp}')
                return res
        if not exp['tf']:
            continue
        ref = tr.get(i, 'load torque') if role == 'master' else tr.get(i, 'driving torque')
        F = tr.get(i, 'tangential force')
        if sp['type'] == 'worm':
            d = _si_len(sp['ref_diameter'])
            Fe = np.abs(ref) / (d / 2) * math.tan(U.si('Angle', *sp['helix']))
        else:
            m = _si_len(sp['module'])
            d = sp['n_teeth'] * m
            Fe = np.abs(ref) / (d / 2)
        n_checked += tr.n
        bad = np.nonzero(~(np.abs(F - Fe) <= TOL * np.maximum(np.abs(F), np.abs(Fe)) + 1e-300))[0]
        if len(bad):
            k = int(bad[0])
            res.bad(f'C09/in-simulation/force/{sp["type"]}', f'instant {k}: element {i} ({role}) force {F[k]!r}, '
                    f'|reference torque| {abs(ref[k])!r} / radius gives {Fe[k]!r}')
            continue
        if not exp.get('bs'):
            continue
        bw = _si_len(sp['face_width'])
        if sp['type'] == 'spur':
            Se = Fe / (m * bw * G.lewis(sp['n_teeth']))
        elif sp['type'] == 'helical':
            Se = Fe / (m * bw * G.lewis_helical(sp['n_teeth'], U.si('Angle', *sp['helix'])))
        else:
            _, (_, Y) = G.worm_pressure_row(U.si('Angle', *sp['pressure']))
            dw = _si_len(mate['ref_diameter'])
            Se = Fe / (math.pi * dw * math.sin(U.si('Angle', *mate['helix'])) / sp['n_teeth'] * min(bw, 0.67 * dw) * Y)
        Sg = tr.get(i, 'bending stress')
        bad = np.nonzero(~(np.abs(Sg - Se) <= TOL * np.maximum(np.abs(Sg), np.abs(Se)) + 1e-300))[0]
        if len(bad):
            k = int(bad[0])
            res.bad(f'C09/in-simulation/bending/{sp["type"]}', f'instant {k}: element {i} bending {Sg[k]!r}, expected {Se[k]!r}')
            continue
        if not exp.get('cs'):
            continue
        d2 = mate['n_teeth'] * _si_len(mate['module'])
        e1, e2 = U.si('Stress', *sp['E']), U.si('Stress', *mate['E'])
        if sp['type'] == 'spur':
            Ce = np.array([G.contact_spur(f, bw, d, d2, e1, e2) for f in Fe])
        else:
            Ce = np.array([G.contact_helical(f, bw, U.si('Angle', *sp['helix']), d, d2, e1, e2) for f in Fe])
        Cg = tr.get(i, 'contact stress')
        bad = np.nonzero(~(np.abs(Cg - Ce) <= TOL * np.maximum(np.abs(Cg), np.abs(Ce)) + 1e-300))[0]
        if len(bad):
            k = int(bad[0])
            res.bad(f'C09/in-simulation/contact/{sp["type"]}', f'instant {k}: element {i} contact {Cg[k]!r}, expected {Ce[k]!r}')
    res.count = max(1, n_checked)
    res.nontrivial = n_checked > 0
    res.classes += ('has-force-series' if n_checked else 'no-force-series',)
    return res


def parts(tier):
    from vp import gen as GEN
    sim = Part('in-simulation', check_in_simulation, strategy=GEN.s_case(max_len=6, max_steps=20, histories=('run',)),
               examples=60 if tier == 'quick' else 800, shards=4 if tier == 'quick' else 8)
    from vp import golden
    gold = Part('golden', lambda c: golden.check_golden(c, ID, columns=('tangential force', 'bending stress',
                                                                        'contact stress')),
                enumerate=lambda: iter([{'golden': 'example-7'}]), chunk=1)
    return _parts(tier) + [sim, gold]


def _parts(tier):
    lew = Part('lewis-teeth', check_lewis, enumerate=enum_lewis, exhaustive=True, chunk=700)
    sub = Part('subsets', check_pair, enumerate=enum_subsets, exhaustive=True, chunk=100)
    if tier == 'quick':
        return [lew, sub, Part('pairs', check_pair, strategy=s_pair(), examples=800, shards=4)]
    return [lew, sub, Part('pairs', check_pair, strategy=s_pair(), examples=12000, shards=16)]


def selftest():
    assert G.lewis(10) == 0.201 and G.lewis(9) == 0.201 and G.lewis(1000) == 0.484
    assert abs(G.lewis(23) - (0.330 + (0.337 - 0.330) / 2)) < 1e-15
    assert abs(G.virtual_teeth(30, 0.0) - 30) < 1e-12          # helical(beta=0) == spur
    assert abs(G.contact_helical(10, 0.01, 0.0, 0.05, 0.1, 2e11, 1e11) - G.contact_spur(10, 0.01, 0.05, 0.1, 2e11, 1e11)) < 1e-3
    # worked example 7 of the documentation: worm force 0.080352 N needs the tan(beta) factor
