"""C17 — every advertised time variable has exactly one sample per instant."""
from __future__ import annotations

import os
import shutil
import tempfile

from hypothesis import strategies as st

from vp.runner import Part, Result
from vp.oracle import units_si as U
from vp import gen as G
from vp import sim as S

ID = 'C17'
HISTORIES = ('run', 'run+continue', 'run+stop', 'run,reset,run', 'run(stop),continue', 'run(stop),continue(stop)',
             'run,continue(new Solver)')
RULE = ('configurations (exhaustive): every subset of the optional data on small topologies - spur pair and helical '
        'pair: 8 x 8 subsets of (module, face width, elastic modulus) of both gears; worm pair in both orientations: '
        'worm reference diameter x wheel (module, face width); motor with / without current data or with only one of the two currents - times 7 '
        f'histories {HISTORIES}. chains (Hypothesis): random longer valid chains with random histories. After EVERY '
        'operation of the history, for every element and every key of time_variables: the list has exactly '
        'len(powertrain.time) samples, each sample is an instance of the variable\'s kind (pwm: int/float), the last '
        'sample is the element\'s current attribute; after the history export_time_variables and snapshot succeed. '
        'Runs the library refuses by design (contact stress with an incomplete mate) are classified, not judged. '
        'Non-trivial = some element advertises an optional variable (force / stress / current); distinct = '
        'canonical JSON.')
ASSUMPTIONS = ['a ValueError naming a missing module / elastic modulus of the mate is the documented refusal of C09 and '
               'is classified rejected-by-design']

ATTR = {'angular position': 'angular_position', 'angular speed': 'angular_speed',
        'angular acceleration': 'angular_acceleration', 'torque': 'torque', 'driving torque': 'driving_torque',
        'load torque': 'load_torque', 'tangential force': 'tangential_force', 'bending stress': 'bending_stress',
        'contact stress': 'contact_stress', 'electric current': 'electric_current', 'pwm': 'pwm'}


def _check_state(b, res, where):
    pt = b.powertrain
    n = len(pt.time)
    for el in pt.elements:
        for var, samples in el.time_variables.items():
            tname = type(el).__name__
            if len(samples) != n:
                res.bad(f'C17/length/{tname}/{var.replace(" ", "-")}',
                        f'{where}: {el.name} ({tname}) advertises {var!r} with {len(samples)} samples for {n} instants')
                continue
            if var == 'pwm':
                ok = all(isinstance(s, (int, float)) and not isinstance(s, bool) for s in samples)
            else:
                ok = all(type(s).__name__ == S.VAR_KIND[var] for s in samples)
            if not ok:
                bad = next(s for s in samples if var == 'pwm' or type(s).__name__ != S.VAR_KIND[var])
                res.bad(f'C17/sample-kind/{tname}/{var.replace(" ", "-")}',
                        f'{where}: {el.name} sample of {var!r} is {bad!r} ({type(bad).__name__})')
                continue
            if n and var in ATTR:
                cur = getattr(el, ATTR[var])
                if samples[-1] is not cur and not (var == 'pwm' and samples[-1] == cur):
                    same = (type(cur) is type(samples[-1]) and getattr(cur, 'value', 0) == getattr(samples[-1], 'value', 1)
                            and getattr(cur, 'unit', 0) == getattr(samples[-1], 'unit', 1))
                    if not same:
                        res.bad(f'C17/last-sample-not-current/{var.replace(" ", "-")}',
                                f'{where}: {el.name} last sample of {var!r} is {samples[-1]!r} but the attribute is {cur!r}')


def _by_design(e):
    s = str(e)
    return isinstance(e, ValueError) and ("misses 'module'" in s or "misses 'elastic_modulus'" in s)


def check(case) -> Result:
    res = Result()
    try:
        b = S.build(case)
    except Exception as e:  # noqa
        res.classes += (f'build-rejected:{type(e).__name__}',)
        res.build_error = e
        return res
    optional = any(k in el.time_variables for el in b.powertrain.elements
                   for k in ('tangential force', 'bending stress', 'contact stress', 'electric current'))
    res.nontrivial = optional
    for j, op in enumerate(case['history']):
        try:
            S.run_op(b, op)
        except Exception as e:  # noqa
            if _by_design(e):
                res.classes += ('rejected-by-design',)
                res.nontrivial = False
                return res
            res.bad(f'C17/operation-raises/{op["op"]}/{type(e).__name__}', f'op {j} {op}: {type(e).__name__}: {e}')
            res.run_error = e
            return res
        _check_state(b, res, f'after op {j} ({op["op"]})')
        if res.violations:
            return res
        if op['op'] == 'run' and j < len(case['history']) - 1 and len(b.powertrain.time) >= 2:
            # a snapshot in the middle of the history must neither fail nor disturb what follows
            try:
                import contextlib
                import io
                with contextlib.redirect_stdout(io.StringIO()):
                    b.powertrain.snapshot(target_time=b.powertrain.time[-1], variables=['angular speed'])
            except Exception as e:  # noqa
                res.bad(f'C17/snapshot-fails/{type(e).__name__}', f'snapshot after op {j}: {type(e).__name__}: {e}')
                return res
    if len(b.powertrain.time) >= 2:
        d = tempfile.mkdtemp(prefix='c17_')
        try:
            try:
                b.powertrain.export_time_variables(folder_path=d)
            except Exception as e:  # noqa
                res.bad(f'C17/export-fails/{type(e).__name__}', f'export_time_variables: {type(e).__name__}: {e}')
            try:
                b.powertrain.snapshot(target_time=b.powertrain.time[len(b.powertrain.time) // 2], print_data=False)
            except Exception as e:  # noqa
                res.bad(f'C17/snapshot-fails/{type(e).__name__}', f'snapshot: {type(e).__name__}: {e}')
        finally:
            shutil.rmtree(d, ignore_errors=True)
    res.classes += (f'history:{case.get("history_name", "random")}', 'optional-vars' if optional else 'base-vars-only')
    return res


# ---------------------------------------------------------------------------------------
def _history(name, dt=0.01, n=4):
    run = {'op': 'run', 'dt': [dt, 'sec'], 'T': [dt * n, 'sec']}
    if name == 'run':
        return [dict(run)]
    if name == 'run+continue':
        return [dict(run), {'op': 'run', 'dt': [dt * 500, 'ms'], 'T': [dt * 1500, 'ms']}]
    if name == 'run+stop':
        return [dict(run, stop=True)]
    if name == 'run,reset,run':
        return [dict(run), {'op': 'reset', 'reinit': True}, dict(run)]
    if name == 'run(stop),continue(stop)':
        return [dict(run, stop=True), dict(run, stop=True)]
    if name == 'run,continue(new Solver)':
        return [dict(run), dict(run, new_solver=True)]
    return [dict(run, stop=True), dict(run)]


def _subset(spec, keys, mask, values):
    out = dict(spec)
    for i, k in enumerate(keys):
        if mask >> i & 1:
            out[k] = values[k]
    return out


def enum_configs():
    J = [1e-4, 'kgm^2']
    vals = {'module': [1, 'mm'], 'face_width': [10, 'mm'], 'E': [200, 'GPa']}
    keys = ('module', 'face_width', 'E')
    base = {'load': {'c0': 0.05, 'cw': 0.0, 'csin': 0.0, 'kpos': 1.0, 'ct': 0.0, 'period': 1.0, 'unit': 'Nm'},
            'init': {'pos': [0.0, 'rad'], 'speed': [0.0, 'rad/s']},
            'stop': {'sensor': 'encoder', 'target': 1, 'op': 'ge', 'threshold': [0.5, 'rad']}}
    motors = [{'J': J, 'w0': [2000, 'rpm'], 'tmax': [1, 'Nm'], 'i0': None, 'imax': None, 'pwm0': 1},
              {'J': J, 'w0': [2000, 'rpm'], 'tmax': [1, 'Nm'], 'i0': [0.2, 'A'], 'imax': [5, 'A'], 'pwm0': 1},
              # only one of the two optional currents: no current can be computed, none may be advertised
              {'J': J, 'w0': [2000, 'rpm'], 'tmax': [1, 'Nm'], 'i0': None, 'imax': [5, 'A'], 'pwm0': 1},
              {'J': J, 'w0': [2000, 'rpm'], 'tmax': [1, 'Nm'], 'i0': [0.2, 'A'], 'imax': None, 'pwm0': 1}]
    for hist in HISTORIES:
        for mi, motor in enumerate(motors):
            for t in ('spur', 'helical'):
                extra = {'helix': [20, 'deg']} if t == 'helical' else {}
                for ma in range(8):
                    for mb in range(8):
                        if mi >= 1 and (ma + mb + mi) % 3:      # the motor variants are crossed with a third of the subsets each
                            continue
                        a = _subset(dict({'type': t, 'n_teeth': 12, 'J': J, 'link': {'kind': 'joint'}}, **extra), keys, ma, vals)
                        bb = _subset(dict({'type': t, 'n_teeth': 30, 'J': J, 'link': {'kind': 'gear', 'eta': 0.9}}, **extra),
                                     keys, mb, vals)
                        yield dict(base, motor=motor, chain=[a, bb], history=_history(hist), history_name=hist)
            for orient in ('worm-drives', 'wheel-drives'):
                for md in range(2):
                    for mw in range(4):
                        worm = _subset({'type': 'worm', 'n_starts': 1, 'J': J, 'helix': [10, 'deg'], 'pressure': [20, 'deg']},
                                       ('ref_diameter',), md, {'ref_diameter': [10, 'mm']})
                        wheel = _subset({'type': 'wheel', 'n_teeth': 20, 'J': J, 'helix': [10, 'deg'], 'pressure': [20, 'deg']},
                                        ('module', 'face_width'), mw, vals)
                        tail = {'type': 'spur', 'n_teeth': 15, 'J': J, 'link': {'kind': 'joint'}}
                        if orient == 'worm-drives':
                            chain = [dict(worm, link={'kind': 'joint'}), dict(wheel, link={'kind': 'worm', 'f': 0.05}), tail]
                        else:
                            chain = [dict(wheel, link={'kind': 'joint'}), dict(worm, link={'kind': 'worm', 'f': 0.05}), tail]
                        yield dict(base, motor=motor, chain=chain, history=_history(hist), history_name=hist)


@st.composite
def s_random(draw, max_len=7, max_steps=25):
    case = draw(G.s_case_controlled(max_len=max_len, max_steps=max_steps,
                                    histories=('run', 'run+continue', 'reset+rerun')))
    if draw(st.booleans()):
        mdl_last = len(case['chain'])
        case['stop'] = {'sensor': 'tachometer', 'target': draw(st.integers(0, mdl_last)), 'op': 'gt',
                        'threshold': G.qty('AngularSpeed', draw(st.floats(0, 50)), draw(G.s_unit('AngularSpeed')))}
        case['history'][0]['stop'] = True
    return case


def parts(tier):
    cfg = Part('configurations', check, enumerate=enum_configs, exhaustive=True, chunk=60)
    if tier == 'quick':
        return [cfg, Part('chains', check, strategy=s_random(), examples=150, shards=4)]
    return [cfg, Part('chains', check, strategy=s_random(10, 80), examples=1500, shards=16)]
