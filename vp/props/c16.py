"""C16 — a stop condition ends the run at the first instant it holds."""
from __future__ import annotations

import numpy as np
from hypothesis import strategies as st

from vp.runner import Part, Result
from vp.oracle import units_si as U
from vp import gen as G
from vp import sim as S
from vp import invariants as I

ID = 'C16'
RULE = ('Valid powertrains (as C01, optional duty-cycle histories; a third are self-locking drives under loads up to 100x '
        'stall, so that the condition may first hold while the powertrain is held), a sensor (encoder / tachometer on any element, '
        'amperometer on the motor), one of the five operators and a threshold in a random unit placed before, inside '
        'or beyond the reachable range: the case carries a quantile q and an offset, and the checker derives the '
        'threshold from the sensed series of the UN-STOPPED run of the same case (deterministic); exact-tie cases use '
        'a recorded sample itself, or the float one unit in the last place above / below it, as threshold (same unit, so the comparison is exact). Oracle: expected stop index = '
        'first instant k >= 1 of the un-stopped series at which the comparison holds (exact SI, margin policy); the '
        'stopped run must be bit-identical to the prefix 0..k of the un-stopped run, the comparison recomputed from '
        'the recorded series is false at instants 1..k-1 and true at k, and nothing is recorded after k; if it never '
        'holds the two runs are identical. In a quarter of the cases the stopped run is followed by reset + rerun with '
        'the same StopCondition object, which must stop at the same instant; in another sixth only the continuation of a '
        'two-run history receives the stop condition (it may already hold at the junction). Non-trivial = the run stopped strictly inside (1 < k < n); distinct = '
        'canonical JSON.')
ASSUMPTIONS = ['cases where the reading comes within 1e-9 (relative to the series scale) of the threshold at or before '
               'the expected stop are not judged, unless the tie is exact (same unit, identical number)']

SENSOR_VAR = {'encoder': ('angular position', 'AngularPosition'), 'tachometer': ('angular speed', 'AngularSpeed'),
              'amperometer': ('electric current', 'Current')}


def _cmp(op, x, thr):
    return {'gt': x > thr, 'ge': x >= thr, 'eq': x == thr, 'lt': x < thr, 'le': x <= thr}[op]


def check(case) -> Result:
    res = Result()
    st_ = case['stop_spec']
    sensor = st_['sensor']
    var, kind = SENSOR_VAR[sensor]
    base = {k: v for k, v in case.items() if k != 'stop_spec'}
    try:
        bu, tu, eu = S.simulate(base)
    except Exception as e:  # noqa
        res.classes += (f'build-rejected:{type(e).__name__}',)
        res.build_error = e
        return res
    if eu is not None or not tu:
        res.classes += ('unstopped-run-raised',)
        res.run_error = eu
        return res
    u = tu[-1]
    mdl = bu.model
    if not I.complete(u) or not I.finite_trace(u) or u.n < 4:
        res.classes += ('incomplete-or-nonfinite-trace',)
        return res
    target = 0 if sensor == 'amperometer' else st_['target'] % mdl.n
    if var not in u.vars[target]:
        res.classes += ('sensor-not-available',)
        return res
    series = u.get(target, var)
    scale = float(np.max(np.abs(series))) or 1.0
    # derive the threshold from the un-stopped series
    if st_.get('exact_tie') is not None:
        j = 1 + st_['exact_tie'] % (u.n - 1)
        sample = bu.powertrain.elements[target].time_variables[var][j]
        thr_pair = [sample.value, sample.unit]
        if st_.get('tie_ulps') and isinstance(sample.value, float) and np.isfinite(sample.value):
            # one unit in the last place above / below the recorded sample, in the same unit: the comparison is still exact
            import math
            thr_pair[0] = math.nextafter(sample.value, math.inf if st_['tie_ulps'] > 0 else -math.inf)
    else:
        lo, hi = float(np.min(series)), float(np.max(series))
        thr = lo + (hi - lo) * st_['q'] + (hi - lo + scale * 1e-3) * st_['offset']
        thr_pair = G.qty(kind, thr, st_['unit'])
    thr_si = U.si(kind, *thr_pair)
    op = st_['op']
    margin = np.abs(series - thr_si) / scale
    # cross-unit comparisons of the library carry an absolute floor (1e-300) for subnormal magnitudes: differences
    # below it are 'rounding' in the sense of C05 and are not judged
    margin = np.where(np.abs(series - thr_si) <= 1e-290, 0.0, margin)
    tie_exact = st_.get('exact_tie') is not None
    truth = [bool(_cmp(op, series[k], thr_si)) for k in range(u.n)]
    if tie_exact:
        # exact comparisons in the same unit: recompute with the raw recorded numbers
        raw = [s.value if s.unit == thr_pair[1] else None
               for s in bu.powertrain.elements[target].time_variables[var]]
        if any(r is None for r in raw):
            res.classes += ('mixed-sample-units',)
            return res
        truth = [bool(_cmp(op, r, thr_pair[0])) for r in raw]
    # the stop condition may be handed to the continuation only: it is then evaluated at every instant the continuation
    # computes, the first of which has index n_first (the junction instant itself was computed by the earlier run)
    from_run = st_.get('from_run', 0) if len([o for o in base['history'] if o['op'] == 'run']) > 1 else 0
    k_first = 1
    if from_run:
        b0, t0, e0 = S.simulate(dict(base, history=base['history'][:1]))
        k_first = t0[-1].n if t0 else 1
    kexp = next((k for k in range(k_first, u.n) if truth[k]), None)
    upto = (kexp + 1) if kexp is not None else u.n
    if not tie_exact and np.any(margin[k_first:upto] <= 1e-9):
        res.classes += ('near-threshold-discarded',)
        return res
    stopped_case = dict(base, stop={'sensor': sensor, 'target': target, 'op': op, 'threshold': thr_pair})
    runs_seen = -1
    hist = []
    for o in base['history']:
        if o['op'] == 'run':
            runs_seen += 1
            hist.append(dict(o, stop=runs_seen >= from_run))
        else:
            hist.append(o)
    stopped_case['history'] = hist
    if st_.get('rerun'):
        # the same StopCondition object serves a second epoch: run (stop), reset, re-apply initial conditions, run (stop)
        reset = {'op': 'reset', 'reinit': True}
        if st_.get('rerun_units') and st_.get('exact_tie') is None:
            # the same initial conditions, written in other units for the second epoch
            pu, su = st_['rerun_units']
            reset['init'] = {'pos': [float(U.convert_exact('AngularPosition', *base['init']['pos'], pu)), pu],
                             'speed': [float(U.convert_exact('AngularSpeed', *base['init']['speed'], su)), su]}
        stopped_case['history'] = stopped_case['history'] + [reset] + \
            [dict(o, new_solver=bool(st_.get('new_solver'))) for o in stopped_case['history']]
    try:
        bs, ts, es = S.simulate(stopped_case)
    except Exception as e:  # noqa
        res.bad(f'C16/build-with-stop-raises/{type(e).__name__}', f'{type(e).__name__}: {e}')
        return res
    if es is not None:
        res.bad(f'C16/stopped-run-raises/{type(es).__name__}', f'stop {stopped_case["stop"]}: {type(es).__name__}: {es}')
        return res
    s = ts[len(base['history']) - 1] if len(ts) >= len(base['history']) else ts[-1]
    if st_.get('rerun') and len(ts) >= 3:
        s2 = ts[-1]
        same_numbers = not (st_.get('rerun_units') and st_.get('exact_tie') is None)
        if s2.n != s.n or not np.array_equal(s2.t, s.t) or (same_numbers and any(
                not np.array_equal(s2.vars[i][v], s.vars[i][v]) for i in range(mdl.n) for v in s.vars[i]
                if s.vars[i][v] is not None and s2.vars[i].get(v) is not None)):
            res.bad('C16/rerun-stops-elsewhere', f'stop when {sensor}[{target}] {op} {thr_pair}: first epoch recorded '
                    f'{s.n} instants, the rerun after reset (same StopCondition object) {s2.n}')
    desc = f'stop when {sensor}[{target}] {op} {thr_pair} (SI {thr_si!r}); un-stopped run has {u.n} instants'
    if s.n != upto:
        if kexp is not None and s.n == u.n:
            what = 'never-stops'
        elif kexp is not None and s.n == upto + 1:
            what = 'one-step-late'
        elif kexp is not None and s.n == upto - 1:
            what = 'one-step-early'
        elif kexp is None:
            what = 'stops-although-never-true'
        else:
            what = 'wrong-instant'
        res.bad(f'C16/{what}/{op}', f'{desc}: comparison first true at instant {kexp}, expected {upto} recorded '
                f'instants, got {s.n}; readings around: {[float(x) for x in series[max(0, (kexp or 1) - 2):(kexp or 1) + 2]]}')
    else:
        # prefix identical to the un-stopped run; every series has exactly s.n samples
        for i in range(mdl.n):
            for v, arr in s.vars[i].items():
                ref = u.vars[i][v]
                if arr is None or len(arr) != s.n:
                    res.bad('C16/recorded-after-stop', f'{desc}: element {i} {v!r} has '
                            f'{None if arr is None else len(arr)} samples for {s.n} instants')
                    break
                if not np.array_equal(arr, ref[:s.n]):
                    res.bad('C16/prefix-differs', f'{desc}: element {i} {v!r} differs from the un-stopped run')
                    break
        if not np.array_equal(s.t, u.t[:s.n]):
            res.bad('C16/prefix-differs', f'{desc}: time axis differs from the un-stopped run')
        # the comparison recomputed from the stopped run's own series
        own = s.get(target, var)
        if kexp is not None and not tie_exact and own is not None and len(own) == s.n:
            if any(_cmp(op, own[k], thr_si) for k in range(k_first, s.n - 1)) or not _cmp(op, own[s.n - 1], thr_si):
                res.bad(f'C16/comparison-inconsistent/{op}', f'{desc}: recorded readings {list(map(float, own))}')
    res.nontrivial = kexp is not None and 1 < kexp < u.n - 1
    if from_run:
        res.classes += ('stop-on-continuation-only', 'true-at-junction' if truth[k_first - 1] else 'false-at-junction')
    res.classes += (f'sensor:{sensor}', f'op:{op}', ('one-ulp-off-tie' if st_.get('tie_ulps') else 'exact-tie') if tie_exact else 'generic',
                    'stops-inside' if res.nontrivial else ('never' if kexp is None else 'edge'))
    return res


@st.composite
def s_case(draw, max_len=5, max_steps=40):
    if draw(st.integers(0, 2)) == 0:
        # self-locking drives under heavy loads: the condition may first hold while the powertrain is held
        from vp.props import c13 as C13
        case = draw(C13.s_case(max_len=max_len, max_steps=max_steps))
        case['history'] = case['history'][:1]
    else:
        case = draw(G.s_case_controlled(max_len=max_len, max_steps=max_steps, histories=('run',), currents=True))
    sensor = draw(st.sampled_from(['encoder', 'encoder', 'tachometer', 'tachometer', 'amperometer']))
    kind = SENSOR_VAR[sensor][1]
    spec = {'sensor': sensor, 'target': draw(st.integers(0, 12)),
            'op': draw(st.sampled_from(['gt', 'ge', 'eq', 'lt', 'le'])),
            'q': draw(st.floats(0.0, 1.0)), 'offset': draw(st.sampled_from([0.0, 0.0, 0.0, 0.3, -0.3])),
            'unit': draw(G.s_unit(kind))}
    if spec['op'] == 'eq' or draw(st.integers(0, 5)) == 0:
        spec['exact_tie'] = draw(st.integers(0, 200))
        spec['tie_ulps'] = draw(st.sampled_from([0, 0, 1, -1]))
    if draw(st.integers(0, 3)) == 0:
        spec['rerun'] = True
        spec['new_solver'] = draw(st.booleans())
        if draw(st.booleans()) and 'exact_tie' not in spec:       # an exact tie is exact in one unit only
            spec['rerun_units'] = [draw(G.s_unit('AngularPosition')), draw(G.s_unit('AngularSpeed'))]
    elif draw(st.integers(0, 2)) == 0:
        # run, then a continued run, and only the continuation receives the stop condition (which may already hold at
        # the junction: it must then stop the continuation at its first computed instant)
        from vp import model as M
        mdl = M.Model(case)
        case['history'] = case['history'][:1] + [G.s_run(draw, mdl, max_steps=max(3, max_steps // 2))]
        if case.get('control'):
            case['history'][1]['control'] = True
        spec['from_run'] = 1
    case['stop_spec'] = spec
    return case


def parts(tier):
    if tier == 'quick':
        return [Part('stops', check, strategy=s_case(), examples=220, shards=4)]
    return [Part('stops', check, strategy=s_case(8, 120), examples=2000, shards=16)]
