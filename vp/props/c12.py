"""C12 — continuation and reset / rerun reproduce the same history."""
from __future__ import annotations

import copy
from fractions import Fraction as Fr

import numpy as np
from hypothesis import strategies as st

from vp.runner import Part, Result
from vp.oracle import units_si as U
from vp import gen as G
from vp import model as M
from vp import sim as S
from vp import invariants as I

ID = 'C12'
RULE = ('Valid powertrains with emphasis on self-locking models that end a run held, duty-cycle histories from '
        'disjoint ConstantPWM windows and time-dependent loads. split: the same model is simulated as [run n1*dt, run '
        'n2*dt] and as [run (n1+n2)*dt], any split point, the continuation optionally written in another time unit; '
        '(its duration optionally in a third unit); time axis and EVERY recorded series must agree - bit-identically when dt is dyadic (2^-j s) and the unit is '
        'kept, within 1e-9 relative otherwise (cases whose timer windows / lock decisions lie within 1e-9 of a grid '
        'instant or threshold are counted as near-threshold and skipped). long-split: the same with short chains and '
        '8192..80000 steps in total (the step count of a segment must not depend on where the duration is cut). rerun: [schedule, reset, re-apply the '
        'initial conditions, same schedule] with the same or a new Solver must reproduce the first epoch '
        'bit-identically (time axis, every series, every element). Non-trivial = the split falls while the '
        'powertrain is held, or a rule window spans the seam, or the load depends on time (rerun: the first epoch '
        'ends held or is controlled); distinct = canonical JSON.')
ASSUMPTIONS = ['"re-applying the initial conditions" = position and speed of the last element and the motor\'s initial '
               'duty cycle, exactly as before the first run; in half of the cases whose first recorded duty cycle equals the '
               'initial one the duty cycle is left to reset() (position and speed only)', 'near-threshold policy: margins are computed from the '
               'recorded values of the single-run execution']


def _series(tr):
    out = {'t': tr.t}
    for i, d in enumerate(tr.vars):
        for var, arr in d.items():
            out[f'{i}:{var}'] = arr
    return out


def _compare(a, b, exact, label, res, sigbase):
    sa, sb = _series(a), _series(b)
    if sa.keys() != sb.keys():
        res.bad(f'{sigbase}/variables-differ', f'{label}: recorded variables differ')
        return
    if a.n != b.n:
        res.bad(f'{sigbase}/instant-count', f'{label}: {a.n} instants vs {b.n}')
        return
    for key in sa:
        x, y = sa[key], sb[key]
        if x is not None and y is not None and len(x) == 0 and len(y) == 0:
            continue
        if x is None or y is None or len(x) != len(y):
            res.bad(f'{sigbase}/series-length', f'{label}: series {key} has lengths '
                    f'{None if x is None else len(x)} vs {None if y is None else len(y)}')
            return
        if exact:
            if not np.array_equal(x, y):
                k = int(np.nonzero(x != y)[0][0])
                res.bad(f'{sigbase}/not-identical', f'{label}: series {key} differs first at instant {k}: '
                        f'{x[k]!r} vs {y[k]!r} ({int(np.sum(x != y))} of {len(x)} samples)')
                return
        else:
            scale = max(float(np.max(np.abs(x))), float(np.max(np.abs(y))), 1e-300)
            bad = np.nonzero(~(np.abs(x - y) <= 1e-9 * np.maximum(np.abs(x), np.abs(y)) + 1e-9 * scale))[0]
            if len(bad):
                k = int(bad[0])
                res.bad(f'{sigbase}/differs', f'{label}: series {key} differs first at instant {k}: '
                        f'{x[k]!r} vs {y[k]!r} (series scale {scale!r}; {len(bad)} of {len(x)} samples)')
                return


def _near_threshold(case, mdl, tr, dt_si):
    """smallest relative margin of the discrete decisions of the single-run execution"""
    margin = 1.0
    for r in case.get('control') or []:
        if r['rule'] == 'constant':
            a = U.si('Time', *r['start'])
            e = a + U.si('TimeInterval', *r['duration'])
            for edge in (a, e):
                k = round(edge / dt_si)
                margin = min(margin, abs(edge - k * dt_si) / dt_si)
    if mdl.self_locking:
        last = mdl.n - 1
        w, a = tr.get(last, 'angular speed'), tr.get(last, 'angular acceleration')
        tq = tr.get(0, 'torque')
        R = mdl.cum_ratio(0)
        for k in range(1, tr.n):
            ws = R * (w[k - 1] + a[k - 1] * dt_si)
            if ws != 0:
                margin = min(margin, abs(ws) / mdl.w0)
            if tq[k - 1] != 0:
                margin = min(margin, abs(tq[k - 1]) / mdl.Tmax)
    return margin


def check_split(case) -> Result:
    res = Result()
    sp = case['split']
    dt, n1, n2 = sp['dt'], sp['n1'], sp['n2']
    dt_si = U.si('TimeInterval', *dt)
    u2 = sp.get('unit2') or dt[1]
    dt2 = list(dt) if u2 == dt[1] else G.qty('TimeInterval', dt_si, u2)
    ctl = bool(case.get('control'))
    T2 = [dt2[0] * n2, dt2[1]]
    if sp.get('unitT2') and sp['unitT2'] != dt2[1]:
        T2 = [float(U.convert_exact('TimeInterval', dt2[0], dt2[1], sp['unitT2']) * n2), sp['unitT2']]
    T1, T12 = [dt[0] * n1, dt[1]], [dt[0] * (n1 + n2), dt[1]]
    if sp.get('literal'):
        # decimal step m*10^-e: the durations are written as the decimal literals of m*n*10^-e (dt = 1 ms, T = 32.005 s)
        m_, e_ = sp['literal']
        T1, T12 = [float(Fr(m_ * n1, 10 ** e_)), dt[1]], [float(Fr(m_ * (n1 + n2), 10 ** e_)), dt[1]]
        if u2 == dt[1] and not (sp.get('unitT2') and sp['unitT2'] != dt2[1]):
            T2 = [float(Fr(m_ * n2, 10 ** e_)), dt[1]]
    A = dict(case, history=[{'op': 'run', 'dt': dt, 'T': T1, 'control': ctl},
                            {'op': 'run', 'dt': dt2, 'T': T2, 'control': ctl}])
    Bc = dict(case, history=[{'op': 'run', 'dt': dt, 'T': T12, 'control': ctl}])
    try:
        ba, ta, ea = S.simulate(A)
        bb, tb, eb = S.simulate(Bc)
    except Exception as e:  # noqa
        res.classes += (f'build-rejected:{type(e).__name__}',)
        res.build_error = e
        return res
    mdl = bb.model
    if ea is not None or eb is not None:
        if type(ea) is not type(eb):
            res.bad('C12/split/outcome-differs', f'split execution raised {ea!r}, single run raised {eb!r}')
        res.classes += ('run-raised',)
        res.run_error = ea or eb
        from vp.simprops import by_design
        if type(ea) is type(eb) and not by_design(ea or eb):
            res.bad(f'C12/split/run-raises/{type(ea or eb).__name__}', f'both executions raised {ea!r}')
        return res
    a, b = ta[-1], tb[-1]
    if not (I.complete(a) and I.complete(b) and I.finite_trace(a) and I.finite_trace(b)):
        res.classes += ('incomplete-or-nonfinite-trace',)
        return res
    dyadic = dt[1] == 'sec' and Fr(dt[0]).denominator & (Fr(dt[0]).denominator - 1) == 0 and Fr(dt[0]).denominator <= 2 ** 20
    exact = dyadic and u2 == dt[1] and T2[1] == dt[1]
    if not exact:
        m = _near_threshold(case, mdl, b, dt_si)
        w_init = U.si('AngularSpeed', *case['init']['speed'])
        if mdl.self_locking and w_init != 0:
            m = min(m, abs(mdl.cum_ratio(0) * w_init) / mdl.w0)
        if m < 1e-6:
            res.classes += ('near-threshold-discarded',)
            # the time axis is still comparable
            if a.n != b.n:
                res.bad('C12/split/instant-count', f'split {n1}+{n2} steps recorded {a.n} instants, single run {b.n}')
            return res
    _compare(a, b, exact, f'split at step {n1} of {n1 + n2} (dt={dt}, continuation in {u2})', res, 'C12/split')
    held = I.held_instants(mdl, b)
    seam_held = bool(held[min(n1, b.n - 1)])
    seam_t = n1 * dt_si
    spans = any(r['rule'] == 'constant' and U.si('Time', *r['start']) < seam_t <
                U.si('Time', *r['start']) + U.si('TimeInterval', *r['duration']) for r in case.get('control') or [])
    timedep = bool(case['load']['ct'])
    res.nontrivial = seam_held or spans or timedep
    res.classes += ('exact' if exact else 'tolerant', 'other-unit' if u2 != dt[1] else 'same-unit',
                    'seam-held' if seam_held else 'seam-moving', 'window-spans-seam' if spans else 'no-span',
                    'time-load' if timedep else 'no-time-load')
    return res


def check_rerun(case) -> Result:
    res = Result()
    try:
        b = S.build(case)
    except Exception as e:  # noqa
        res.classes += (f'build-rejected:{type(e).__name__}',)
        res.build_error = e
        return res
    mdl = b.model
    sched = case['schedule']
    ctl = bool(case.get('control'))
    epochs = []
    try:
        for ep in range(2):
            for j, r in enumerate(sched):
                S.run_op(b, dict(r, op='run', control=ctl and r.get('control', True),
                                 new_solver=(ep == 1 and j == 0 and case['new_solver'])))
            epochs.append(S.Trace(b))
            if ep == 0:
                # The duty cycle is re-applied as part of the initial conditions - except, when the case asks for it and
                # the first recorded duty cycle equals the initial one (no rule in force at t = 0), it is left to
                # reset() to restore it (position and speed only, as the documentation's examples do).
                pw = epochs[0].get(0, 'pwm')
                leave_pwm = bool(case.get('leave_pwm')) and len(pw) > 0 and pw[0] == case['motor'].get('pwm0', 1)
                S.run_op(b, {'op': 'reset', 'reinit': True, 'reinit_pwm': not leave_pwm})
                if leave_pwm:
                    res.classes += ('pwm-left-to-reset',)
    except Exception as e:  # noqa
        res.classes += (f'run-raised:{type(e).__name__}',)
        res.run_error = e
        if len(epochs) == 1:
            res.bad(f'C12/rerun/second-epoch-raises/{type(e).__name__}', f'rerun raised {type(e).__name__}: {e}')
        return res
    a, c = epochs
    if not (I.complete(a) and I.finite_trace(a)):
        res.classes += ('incomplete-or-nonfinite-trace',)
        return res
    _compare(a, c, True, f'rerun after reset ({"new" if case["new_solver"] else "same"} Solver)', res,
             'C12/rerun/' + ('new-solver' if case['new_solver'] else 'same-solver'))
    held = I.held_instants(mdl, a)
    res.nontrivial = bool(held[-1]) or ctl
    res.classes += ('ends-held' if held[-1] else 'ends-moving', 'new-solver' if case['new_solver'] else 'same-solver',
                    'controlled' if ctl else 'uncontrolled', f'runs:{len(sched)}')
    return res


@st.composite
def s_base(draw, max_len=5):
    worm = draw(st.sampled_from(['yes', 'yes', 'maybe']))
    case = {'motor': draw(G.s_motor()),
            'chain': draw(G.s_chain(max_len=max_len, worm=worm, locking=draw(st.sampled_from([True, True, None]))))}
    mdl = M.Model(case)
    load = G.s_load(draw, mdl)
    if draw(st.booleans()):
        load['c0'] = mdl.stall_out * draw(st.floats(1.0, 20.0)) * draw(st.sampled_from([1, -1]))
    if draw(st.booleans()) and not load['ct']:
        load['ct'] = mdl.stall_out * draw(st.floats(0.05, 0.5))
        load['period'] = draw(st.floats(2, 50)) / mdl.k
    case['load'] = load
    case['init'] = G.s_init(draw, mdl)
    case['motor']['pwm0'] = draw(st.sampled_from([1, 1, 1, 0.5, -1, 0]))
    G.add_variants(draw, case)
    return case, mdl


@st.composite
def s_split(draw, max_steps=40, long=0):
    case, mdl = draw(s_base(max_len=2 if long else 5))
    n1, n2 = draw(st.integers(2, max_steps)), draw(st.integers(2, max_steps))
    if long:
        # long, finely discretised runs (tens of thousands of steps): the step count of each segment must not
        # depend on how the total duration is cut
        case['load']['csin'] = 0.0       # over 10^4 steps a position-dependent load amplifies rounding beyond any fixed tolerance
        total = draw(st.integers(8192, long))
        n1 = draw(st.integers(2, total - 2))
        n2 = total - n1
    if draw(st.booleans()):
        # dyadic step in seconds close to the model's natural step
        import math
        target = draw(st.floats(0.02, 1.0)) / mdl.k
        j = max(-20, min(20, round(math.log2(target))))
        dt = [2.0 ** j, 'sec']
        unit2 = draw(st.sampled_from([None, None, 'ms', 'min']))
    else:
        dt = G.qty('TimeInterval', draw(st.floats(0.02, 1.0)) / mdl.k, draw(G.s_unit('TimeInterval')))
        unit2 = draw(st.sampled_from([None, None, 'sec', 'ms', 'min', 'hour']))
    case['split'] = {'dt': dt, 'n1': n1, 'n2': n2, 'unit2': unit2,
                     'unitT2': draw(st.sampled_from([None, None, 'sec', 'ms', 'min', 'hour']))}
    if long and draw(st.integers(0, 3)) > 0:
        # a decimal step near the natural one, durations as decimal literals
        import math
        target = U.si('TimeInterval', *dt)
        e = max(0, min(9, 2 - math.floor(math.log10(target))))
        m = max(1, round(target * 10 ** e))
        case['split'].update(dt=[float(Fr(m, 10 ** e)), 'sec'], literal=[m, e])
        dt = case['split']['dt']
        # aim at durations whose float quotient T/dt lands one ulp above the whole number of steps (about one in ten
        # does): that is where a step count depends on how the guard against rounding is written
        which = draw(st.sampled_from(['n1', 'total']))
        total = n1 + n2
        if which == 'n1' and n1 < 8192:
            n1 = draw(st.integers(8192, max(8192, total - 2)))
        found = False
        for m_ in range(m, m + 20):
            dtf = float(Fr(m_, 10 ** e))
            base = n1 if which == 'n1' else total
            for cand in range(base, base + 200):
                if float(Fr(m_ * cand, 10 ** e)) / dtf > cand:
                    found = True
                    break
            if found:
                m = m_
                if which == 'n1':
                    n1 = cand
                else:
                    total = cand
                break
        n2 = max(2, total - n1)
        case['split'].update(dt=[float(Fr(m, 10 ** e)), 'sec'], literal=[m, e], n1=n1, n2=n2)
        dt = case['split']['dt']
    case['history'] = []
    horizon = U.si('TimeInterval', *dt) * (n1 + n2)
    rules = G.s_constant_rules(draw, horizon, max_rules=3)
    if rules:
        case['control'] = rules
    return case


@st.composite
def s_rerun(draw, max_steps=40):
    case, mdl = draw(s_base())
    sched = [G.s_run(draw, mdl, max_steps=max_steps)]
    if draw(st.integers(0, 2)) == 0:
        sched.append(G.s_run(draw, mdl, max_steps=max_steps // 2))
    case['schedule'] = [{'dt': r['dt'], 'T': r['T']} for r in sched]
    if len(sched) == 2 and draw(st.integers(0, 2)) == 0:
        # the motor control is handed to only one of the two segments (the other runs open loop on the duty cycle left
        # by what came before)
        case['schedule'][draw(st.integers(0, 1))]['control'] = False
    case['new_solver'] = draw(st.booleans())
    case['leave_pwm'] = draw(st.booleans())
    case['history'] = []
    horizon = sum(U.si('TimeInterval', *r['T']) for r in sched)
    rules = G.s_constant_rules(draw, horizon, max_rules=3)
    if case['motor'].get('i0') is not None and draw(st.integers(0, 2)) == 0:
        # the library's own start / positioning rules: they read the motor's load and the sensors from the first instant
        # on, so a rerun must present them the same state as the first run did
        last = len(case['chain'])
        p0 = U.si('AngularPosition', *case['init']['pos'])
        ahead = draw(st.floats(0.5, 200.0)) * (1 if case['motor'].get('pwm0', 1) >= 0 else -1)
        kind = draw(st.sampled_from(['ramp', 'ramp', 'reach']))
        if draw(st.integers(0, 3)) > 0:
            rules = []             # (a timer window open while such a rule applies is rejected by the arbitration)
        if kind == 'ramp':
            rules = list(rules) + [{'rule': 'ramp', 'enc': last, 'target': G.qty('AngularPosition', p0 + ahead, 'rad'),
                                    'mult': draw(st.floats(1.1, 4)), 'pwm_min': draw(st.sampled_from([None, None, 0.2]))}]
        else:
            rules = list(rules) + [{'rule': 'reach', 'enc': last, 'target': G.qty('AngularPosition', p0 + ahead, 'rad'),
                                    'braking': G.qty('Angle', abs(ahead) * draw(st.floats(0.05, 0.9)), draw(G.s_unit('Angle')))}]
    if rules:
        case['control'] = rules
    return case


def parts(tier):
    if tier == 'quick':
        return [Part('split', check_split, strategy=s_split(30), examples=200, shards=4),
                Part('rerun', check_rerun, strategy=s_rerun(30), examples=200, shards=4),
                Part('long-split', check_split, strategy=s_split(30, long=20000), examples=5, shards=4)]
    return [Part('split', check_split, strategy=s_split(100), examples=1500, shards=8),
            Part('rerun', check_rerun, strategy=s_rerun(100), examples=1500, shards=8),
            Part('long-split', check_split, strategy=s_split(30, long=80000), examples=12, shards=16)]
