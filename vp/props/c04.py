"""C04 — trajectories converge to the closed-form solution as dt shrinks."""
from __future__ import annotations

import math

import numpy as np
from hypothesis import strategies as st

from vp.runner import Part, Result
from vp.oracle import units_si as U
from vp.oracle import motor as MO
from vp import gen as G
from vp import model as M
from vp import sim as S
from vp import invariants as I

ID = 'C04'
RULE = ('Linear regime: valid chains (no self-locking mating; or, in a seventh of the cases, a self-locking worm drive driven '
        'forward below stall from a non-negative speed - it never locks - after the same Solver held it with a zero duty '
        'cycle in a throw-away run before a reset), constant load (below or above stall, either sign), '
        'constant duty cycle outside the dead zone (the motor\'s preset duty cycle, a ConstantPWM rule covering the whole '
        'horizon, or a motor without current data; D of either sign), no stop condition. Rate constant k = E R^2 '
        'Tmax(D) / (D w0 J_eq) recomputed from the case; horizon 3..6 / k; FOUR simulations per case with steps dt0 / 2^j, '
        'j = 0..3, k dt0 <= 0.2, dt in random units; in a third of the cases each simulation is a run plus a continued '
        'run whose dt and T are written in another time unit, and in a quarter the first run is cut short by a stop '
        'condition and then continued; in another quarter a gear mating is first declared with another efficiency, a '
        'throw-away run is made, and after reset + re-declaration the same Solver must follow the closed form of the chain as it is now. Oracle: w(t) = w_inf + (w(0) - w_inf) exp(-k t), theta(t) = theta0 '
        '+ w_inf t + (w(0) - w_inf)(1 - exp(-k t)) / k. Checked at EVERY instant of every run: |w_sim - w| <= 0.5 (k dt) '
        '|w(0) - w_inf| and |theta_sim - theta| <= (k dt) |w(0) - w_inf| / k (1 + k t); at the common time t* ~ 1/k '
        'the error ratio err(dt_j) / err(dt_j+1) must lie in [1.6, 2.5] whenever the finer error is above 1e6 eps of the '
        'scale. Non-trivial = |w(0) - w_inf| > 1% of the no-load output speed and >= 2 usable error ratios; distinct '
        '= canonical JSON. Part dead-zone: the degenerate member of the family (k -> 0): a duty cycle inside the dead zone, '
        'zero included, preset or imposed by a rule, gives no driving torque: w(t) = w(0) - (T_load / J_eq) t to 1e-9 and '
        '|theta_sim - theta| <= |T_load / J_eq| t dt at every instant of three runs with halved steps.')
ASSUMPTIONS = ['closed-form solution of the linear ODE and the explicit-Euler error constants (factor >= 2 of slack over '
               'the measured worst case)', 'equivalent inertia by the documented reduction']


def check(case) -> Result:
    res = Result()
    mdl = M.Model(case)
    D = case['duty']['value']
    has_i = mdl.i0 is not None
    if has_i:
        if abs(D) <= mdl.i0 / mdl.imax * 1.05:
            return Result(classes=('dead-zone-skipped',))
        TmaxD = MO.tmax_d(D, mdl.Tmax, mdl.i0, mdl.imax)
        k = mdl.E * mdl.R ** 2 * TmaxD / (D * mdl.w0 * mdl.J_eq)
    else:
        TmaxD = mdl.Tmax
        k = mdl.k
        D = 1
    Tl = case['load']['c0']
    w_inf = (mdl.E * mdl.R * TmaxD - Tl) / (mdl.J_eq * k)
    w0 = U.si('AngularSpeed', *case['init']['speed'])
    th0 = U.si('AngularPosition', *case['init']['pos'])
    dw = w0 - w_inf
    n0 = case['n0']
    dt0 = case['kdt0'] / k
    unit = case['dt_unit']
    errs_w, errs_th = [], []
    last = mdl.n - 1
    shared = {}
    for j in range(4):
        dt_si = dt0 / 2 ** j
        n = n0 * 2 ** j
        dt = G.qty('TimeInterval', dt_si, unit)
        ctl = case['duty']['how'] == 'rule'
        sp = case.get('split')
        if sp:
            n1 = max(2, min(n - 2, int(n * sp['frac'])))          # a run needs at least two steps (dt < T)
            dt2 = G.qty('TimeInterval', dt_si, sp['unit2'])
            hist = [{'op': 'run', 'dt': dt, 'T': [dt[0] * n1, unit], 'control': ctl},
                    {'op': 'run', 'dt': dt2, 'T': [dt2[0] * (n - n1), sp['unit2']], 'control': ctl}]
        else:
            hist = [{'op': 'run', 'dt': dt, 'T': [dt[0] * n, unit], 'control': ctl}]
        c = dict(case, history=hist)
        if case.get('shared_init'):
            c['_shared_init'] = shared
        if case['duty']['how'] == 'rule':
            c['control'] = [{'rule': 'constant', 'start': [0, 'sec'],
                             'duration': G.qty('TimeInterval', dt_si * n * 2, 'sec'), 'value': case['duty']['value']}]
        st_ = case.get('stop_then_continue')
        if st_ and not sp:
            # the first run is cut short by a stop condition placed on the closed-form position at a fraction of the
            # horizon; the run is then continued for the remaining steps: every instant still lies on the closed form
            tf = st_['frac'] * dt_si * n
            th_f = th0 + w_inf * tf + dw * (1 - math.exp(-k * tf)) / k
            if th_f != th0:
                c['stop'] = {'sensor': 'encoder', 'target': mdl.n - 1, 'op': 'ge' if th_f > th0 else 'le',
                             'threshold': G.qty('AngularPosition', th_f, st_['unit'])}
                c['history'] = [dict(hist[0], stop=True)]
        rd = case.get('redeclare')
        try:
            if rd is not None and not sp and not c.get('stop'):
                # the gear mating `rd['link']` is first declared with another efficiency; a throw-away run is made, the
                # powertrain is reset, the mating is declared again with the case's efficiency and the SAME Solver reruns:
                # the trajectory must be the closed form of the chain as it is now
                import gearpy.utils as gu
                i = rd['link']
                c0 = dict(c, chain=[dict(e, link=dict(e['link'], eta=rd['eta0'])) if k == i - 1 else e
                                    for k, e in enumerate(c['chain'])])
                b = S.build(c0)
                traces, err = [], None
                try:
                    S.run_op(b, hist[0])
                    S.run_op(b, {'op': 'reset', 'reinit': True})
                    gu.add_gear_mating(master=b.elements[i - 1], slave=b.elements[i], efficiency=c['chain'][i - 1]['link']['eta'])
                    S.run_op(b, hist[0])
                    traces = [S.Trace(b)]
                    res.classes += ('efficiency-redeclared',)
                except Exception as e:  # noqa
                    err = e
            elif case.get('prelocked') and not sp and not c.get('stop'):
                # a self-locking drive first held by a zero duty cycle for a few steps (throw-away run), then reset and
                # driven forward by the SAME Solver: from there on the motion is the linear one
                pl = case['prelocked']
                b = S.build(dict(c, motor=dict(c['motor'], pwm0=0)))
                traces, err = [], None
                try:
                    S.run_op(b, {'op': 'run', 'dt': dt, 'T': [dt[0] * pl['steps'], unit]})
                    b.case = c
                    S.run_op(b, {'op': 'reset', 'reinit': True})
                    S.run_op(b, hist[0])
                    traces = [S.Trace(b)]
                    res.classes += ('held-then-reset-then-driven',)
                except Exception as e:  # noqa
                    err = e
            elif c.get('stop'):
                b = S.build(c)
                traces, err = [], None
                try:
                    S.run_op(b, c['history'][0])
                    n1 = len(b.powertrain.time) - 1
                    if n - n1 >= 2:                   # a run needs at least two steps (dt < T)
                        S.run_op(b, {'op': 'run', 'dt': dt, 'T': [dt[0] * (n - n1), unit], 'control': ctl})
                        res.classes += ('stopped-then-continued',)
                    traces = [S.Trace(b)]
                except Exception as e:  # noqa
                    err = e
            else:
                b, traces, err = S.simulate(c)
        except Exception as e:  # noqa
            res.classes += (f'build-rejected:{type(e).__name__}',)
            res.build_error = e
            return res
        if err is not None or not traces:
            res.classes += ('run-raised',)
            res.run_error = err
            from vp.simprops import by_design
            if err is not None and not by_design(err):
                res.bad(f'C04/run-raises/{type(err).__name__}', f'simulation of a valid linear model raised '
                        f'{type(err).__name__}: {err}')
            return res
        tr = traces[-1]
        if not I.complete(tr) or not I.finite_trace(tr):
            res.classes += ('incomplete-or-nonfinite-trace',)
            return res
        t = tr.t
        w = tr.get(last, 'angular speed')
        th = tr.get(last, 'angular position')
        ex = np.exp(-k * t)
        w_ref = w_inf + dw * ex
        th_ref = th0 + w_inf * t + dw * (1 - ex) / k
        kdt = k * dt_si
        scale_w = abs(dw) + 1e-12 * (abs(w0) + abs(w_inf))
        bound_w = 0.5 * kdt * scale_w + 1e-9 * (abs(w0) + abs(w_inf) + mdl.noload_out)
        bad = np.nonzero(np.abs(w - w_ref) > bound_w)[0]
        if len(bad):
            i = int(bad[0])
            res.bad('C04/speed-off-closed-form',
                    f'run j={j} (k dt = {kdt:.4g}): instant {i} t={t[i]!r}: speed {w[i]!r}, closed form {w_ref[i]!r}, '
                    f'|error| {abs(w[i] - w_ref[i])!r} > bound {bound_w!r} (k={k!r}, w_inf={w_inf!r}, w(0)={w0!r})')
            break
        bound_th = kdt * scale_w / k * (1 + k * t) + 1e-9 * (np.abs(th_ref) + abs(th0) + mdl.noload_out / k) + 1e-300
        bad = np.nonzero(np.abs(th - th_ref) > bound_th)[0]
        if len(bad):
            i = int(bad[0])
            res.bad('C04/position-off-closed-form',
                    f'run j={j} (k dt = {kdt:.4g}): instant {i} t={t[i]!r}: position {th[i]!r}, closed form {th_ref[i]!r}, '
                    f'|error| {abs(th[i] - th_ref[i])!r} > bound {bound_th[i]!r}')
            break
        # error at the common time t* (multiple of dt0 closest to 1/k)
        m = max(1, min(n0, round(1 / (k * dt0))))
        idx = m * 2 ** j
        if idx >= tr.n:
            res.classes += ('short-trace',)
            return res
        errs_w.append(abs(w[idx] - w_ref[idx]))
        errs_th.append(abs(th[idx] - th_ref[idx]))
    if shared.get('objs') and not res.violations:
        # the objects the user handed in as initial conditions are still what they were
        p_, w_ = shared['objs']
        if [p_.value, p_.unit] != list(case['init']['pos']) or [w_.value, w_.unit] != list(case['init']['speed']):
            res.bad('C04/initial-condition-object-mutated', f'the AngularPosition / AngularSpeed objects handed in as initial '
                    f'conditions now read {p_!r}, {w_!r} (were {case["init"]})')
        res.classes += ('shared-initial-condition-objects',)
    usable = 0
    if len(errs_w) == 4 and not res.violations:
        eps = 2.0 ** -52
        for name, errs, sc in (('speed', errs_w, abs(w0) + abs(w_inf) + mdl.noload_out),
                               ('position', errs_th, abs(th0) + abs(w_inf) / k + abs(dw) / k + mdl.noload_out / k)):
            for j in range(3):
                if errs[j + 1] > 1e6 * eps * sc:
                    usable += 1
                    ratio = errs[j] / errs[j + 1]
                    if not 1.6 <= ratio <= 2.5:
                        res.bad(f'C04/{name}-error-does-not-halve',
                                f'{name} error at t* for dt0/2^{j} vs dt0/2^{j + 1}: {errs[j]!r} / {errs[j + 1]!r} = '
                                f'{ratio:.4g} (expected about 2; errors {errs})')
                        break
    res.nontrivial = abs(dw) > 0.01 * mdl.noload_out and usable >= 2
    res.hist['usable-ratios'] = usable
    res.classes += (f'duty:{case["duty"]["how"]}', 'continued-run' if case.get('split') else 'single-run', 'negative-D' if D < 0 else 'positive-D',
                    'above-stall' if abs(Tl) > abs(mdl.E * mdl.R * TmaxD) else 'below-stall',
                    'worm' if any(e['type'] == 'worm' for e in mdl.elements) else 'no-worm')
    return res


def check_deadzone(case) -> Result:
    """the degenerate member of the family: a duty cycle inside the dead zone (zero included) gives no driving torque at
    all; the closed form is w(t) = w(0) - a t, theta(t) = theta0 + w(0) t - a t^2 / 2 with a = T_load / J_eq (the limit
    k -> 0 of the exponential solution)"""
    res = Result()
    mdl = M.Model(case)
    D = case['duty']['value']
    a = case['load']['c0'] / mdl.J_eq
    w0 = U.si('AngularSpeed', *case['init']['speed'])
    th0 = U.si('AngularPosition', *case['init']['pos'])
    n0, dt0, unit = case['n0'], case['kdt0'] / mdl.k, case['dt_unit']
    last = mdl.n - 1
    errs = []
    for j in range(3):
        dt_si, n = dt0 / 2 ** j, n0 * 2 ** j
        dt = G.qty('TimeInterval', dt_si, unit)
        ctl = case['duty']['how'] == 'rule'
        c = dict(case, history=[{'op': 'run', 'dt': dt, 'T': [dt[0] * n, unit], 'control': ctl}])
        if ctl:
            c['control'] = [{'rule': 'constant', 'start': [0, 'sec'],
                             'duration': G.qty('TimeInterval', dt_si * n * 2, 'sec'), 'value': D}]
        try:
            b, traces, err = S.simulate(c)
        except Exception as e:  # noqa
            res.classes += (f'build-rejected:{type(e).__name__}',)
            res.build_error = e
            return res
        if err is not None or not traces:
            res.classes += ('run-raised',)
            res.run_error = err
            from vp.simprops import by_design
            if err is not None and not by_design(err):
                res.bad(f'C04/dead-zone/run-raises/{type(err).__name__}', f'{type(err).__name__}: {err}')
            return res
        tr = traces[-1]
        if not I.complete(tr) or not I.finite_trace(tr):
            res.classes += ('incomplete-or-nonfinite-trace',)
            return res
        t, w, th = tr.t, tr.get(last, 'angular speed'), tr.get(last, 'angular position')
        w_ref = w0 - a * t
        th_ref = th0 + w0 * t - a * t * t / 2
        sc_w = abs(w0) + abs(a) * t[-1] + 1e-300
        bad = np.nonzero(np.abs(w - w_ref) > 1e-9 * sc_w)[0]
        if len(bad):
            i = int(bad[0])
            res.bad('C04/dead-zone/speed-off-closed-form',
                    f'duty cycle {D!r} (dead zone up to {mdl.i0 / mdl.imax!r}, imposed by {case["duty"]["how"]}): instant {i} '
                    f't={t[i]!r}: speed {w[i]!r}, closed form w(0) - (T_load/J_eq) t = {w_ref[i]!r}')
            break
        bound = abs(a) * t * dt_si + 1e-9 * (np.abs(th_ref) + abs(th0) + sc_w * t[-1]) + 1e-300
        bad = np.nonzero(np.abs(th - th_ref) > bound)[0]
        if len(bad):
            i = int(bad[0])
            res.bad('C04/dead-zone/position-off-closed-form',
                    f'duty cycle {D!r}: instant {i} t={t[i]!r}: position {th[i]!r}, closed form {th_ref[i]!r}, |error| '
                    f'{abs(th[i] - th_ref[i])!r} > bound {bound[i]!r}')
            break
        errs.append(abs(th[-1] - th_ref[-1]))
    res.nontrivial = a != 0 or w0 != 0
    res.classes += ('dead-zone:zero' if D == 0 else 'dead-zone:inside', f'duty:{case["duty"]["how"]}')
    return res


@st.composite
def s_deadzone(draw, max_len=4):
    case = draw(s_case(max_len, prelocked=False))
    if case['duty']['how'] == 'no-currents' or M.Model(case).i0 is None:
        case['motor'] = draw(G.s_motor(currents=True))
        case['duty']['how'] = draw(st.sampled_from(['preset', 'rule']))
    mdl = M.Model(case)
    dz = mdl.i0 / mdl.imax
    D = draw(st.sampled_from([0, 0.0, 0, dz * 0.5, -dz * 0.5, dz * 0.9]))
    case['duty']['value'] = D
    case['motor']['pwm0'] = D if case['duty']['how'] == 'preset' else 1
    for k_ in ('split', 'stop_then_continue', 'redeclare'):
        case.pop(k_, None)
    return case


@st.composite
def s_prelocked(draw, max_len=4):
    """self-locking worm drive, driven forward below stall from a non-negative speed: it never locks, the motion is the
    linear one; the same Solver held it (duty cycle 0) in a throw-away run before the reset"""
    case = {'motor': draw(G.s_motor(currents=True)),
            'chain': draw(G.s_chain(max_len=max_len, worm='yes', locking=True))}
    mdl = M.Model(case)
    dz = mdl.i0 / mdl.imax
    D = dz + (1 - dz) * draw(st.floats(0.3, 1.0))
    case['duty'] = {'how': 'preset', 'value': D}
    case['motor']['pwm0'] = D
    stall = mdl.stall_out * MO.tmax_d(D, mdl.Tmax, mdl.i0, mdl.imax) / mdl.Tmax
    case['load'] = {'c0': stall * draw(st.floats(0.0, 0.8)), 'cw': 0.0, 'csin': 0.0, 'kpos': 1.0, 'ct': 0.0, 'period': 1.0,
                    'unit': draw(G.s_unit('Torque'))}
    case['init'] = {'pos': G.qty('AngularPosition', draw(st.floats(-50, 50)), draw(G.s_unit('AngularPosition'))),
                    'speed': G.qty('AngularSpeed', mdl.noload_out * D * draw(st.floats(0.0, 0.9)), draw(G.s_unit('AngularSpeed')))}
    case['kdt0'] = draw(st.floats(0.05, 0.2))
    case['n0'] = max(4, int(draw(st.floats(3, 6)) / case['kdt0']))
    case['dt_unit'] = draw(G.s_unit('TimeInterval'))
    case['history'] = []
    case['prelocked'] = {'steps': draw(st.integers(2, 6))}
    return case


@st.composite
def s_case(draw, max_len=5, prelocked=True):
    if prelocked and draw(st.integers(0, 6)) == 0:
        pc = draw(s_prelocked(min(max_len, 4)))
        if M.Model(pc).self_locking and not M.Model(pc).locking_ambiguous:
            return pc
    how = draw(st.sampled_from(['preset', 'rule', 'no-currents']))
    case = {'motor': draw(G.s_motor(currents=how != 'no-currents')),
            'chain': draw(G.s_chain(max_len=max_len, worm=draw(st.sampled_from(['no', 'maybe', 'yes'])), locking=False))}
    mdl = M.Model(case)
    if how == 'no-currents':
        D = 1
    else:
        dz = mdl.i0 / mdl.imax
        mag = dz + (1 - dz) * draw(st.floats(0.15, 1.0))
        D = mag * draw(st.sampled_from([1, 1, -1]))
        if draw(st.integers(0, 3)) == 0:
            D = draw(st.sampled_from([1, -1]))
    case['duty'] = {'how': how, 'value': D}
    case['motor']['pwm0'] = D if how == 'preset' else 1
    stall = mdl.stall_out
    u = draw(st.one_of(st.floats(-0.9, 0.9), st.floats(-3, 3), st.sampled_from([0.0, 0.5, 1.5])))
    case['load'] = {'c0': stall * u, 'cw': 0.0, 'csin': 0.0, 'kpos': 1.0, 'ct': 0.0, 'period': 1.0,
                    'unit': draw(G.s_unit('Torque'))}
    case['init'] = {'pos': G.qty('AngularPosition', draw(st.floats(-50, 50)), draw(G.s_unit('AngularPosition'))),
                    'speed': G.qty('AngularSpeed', mdl.noload_out * draw(st.floats(-0.5, 1.5)), draw(G.s_unit('AngularSpeed')))}
    G.add_variants(draw, case)
    if draw(st.integers(0, 2)) == 0:
        case['shared_init'] = True       # one AngularPosition / AngularSpeed object reused for all four simulations
    case['kdt0'] = draw(st.floats(0.05, 0.2))
    case['n0'] = max(4, int(draw(st.floats(3, 6)) / case['kdt0']))
    case['dt_unit'] = draw(G.s_unit('TimeInterval'))
    case['history'] = []
    v = draw(st.integers(0, 3))
    if v == 0:
        # the same trajectory reached through a continued run, the continuation written in another time unit
        case['split'] = {'frac': draw(st.floats(0.1, 0.9)), 'unit2': draw(G.s_unit('TimeInterval'))}
    elif v == 1:
        # ... or through a run stopped early by a stop condition and then continued
        case['stop_then_continue'] = {'frac': draw(st.floats(0.1, 0.8)), 'unit': draw(G.s_unit('AngularPosition'))}
    elif v == 2:
        gear_links = [k + 1 for k, e in enumerate(case['chain']) if e['link']['kind'] == 'gear']
        if gear_links:
            case['redeclare'] = {'link': draw(st.sampled_from(gear_links)), 'eta0': draw(st.floats(0.5, 1.0))}
    return case


def parts(tier):
    if tier == 'quick':
        return [Part('linear', check, strategy=s_case(4), examples=40, shards=4),
                Part('dead-zone', check_deadzone, strategy=s_deadzone(4), examples=25, shards=4)]
    return [Part('linear', check, strategy=s_case(7), examples=300, shards=16),
            Part('dead-zone', check_deadzone, strategy=s_deadzone(6), examples=100, shards=16)]


def selftest():
    # closed form satisfies the ODE: dw/dt = k (w_inf - w)
    k, winf, w0 = 2.0, 3.0, -1.0
    f = lambda t: winf + (w0 - winf) * math.exp(-k * t)
    h = 1e-6
    assert abs((f(0.3 + h) - f(0.3 - h)) / (2 * h) - k * (winf - f(0.3))) < 1e-6
