"""C03 — equation of motion and time-step update of the output element."""
from __future__ import annotations

import numpy as np
from hypothesis import strategies as st

from vp.runner import Part, Result
from vp.oracle import units_si as U
from vp import gen as G
from vp import invariants as I
from vp import simprops as SP

ID = 'C03'
RULE = ('Valid powertrains by construction (as C01/C02, inertias in all 8 inertia units, dt and T in any of the 4 '
        'time units, optional duty-cycle histories, self-locking and free worm matings; in half of the run + continuation histories the first run is ended early by a stop condition on the output position and then continued). For EVERY recorded '
        'instant: acceleration of the last element = its net torque / equivalent inertia, the inertia being '
        'recomputed from the case by the documented reduction (J <- J * ratio + J_i); exempt only instants at which '
        'a self-locking powertrain records all speeds and accelerations exactly zero. For EVERY pair of consecutive '
        'instants: advanced speed w* = w[k-1] + a[k-1] * dt (dt = the requested step of that run, in seconds), '
        'recorded speed = w* (or exactly 0 in a self-locking powertrain), position = theta[k-1] + w* * dt. '
        'Non-trivial = >= 3 instants with non-zero acceleration, a ratio != 1 and two element inertias within two '
        'decades (so that forgetting one is visible); distinct = canonical JSON. golden: the two worked examples of the '
        'documentation, simulated from their documented inputs, must reproduce the kinematic and torque columns of the '
        'snapshot tables printed there (t = 10 s) to the printed precision.')
ASSUMPTIONS = ['equivalent inertia by the documented reduction in vp/model.py',
               'additive tolerance 64 eps of the operands + 1e-9 of the increment (a wrong increment stays visible '
               'behind a large accumulated value)']


def _with_stop(case):
    """the first run of a run + continuation history is ended early by a stop condition (threshold at a quantile of the
    output position of the un-stopped first run) and then continued: the update relations hold across that seam too"""
    from vp import sim as S
    try:
        b0, t0, e0 = S.simulate(dict({k: v for k, v in case.items() if k != 'stop_q'}, history=case['history'][:1]))
    except Exception:  # noqa
        return None
    if e0 is not None or not t0 or t0[-1].n < 4 or not I.complete(t0[-1]) or not I.finite_trace(t0[-1]):
        return None
    last = b0.model.n - 1
    series = t0[-1].get(last, 'angular position')
    lo, hi = float(np.min(series)), float(np.max(series))
    if not hi > lo:
        return None
    thr = lo + (hi - lo) * case['stop_q']
    c2 = {k: v for k, v in case.items() if k != 'stop_q'}
    c2['stop'] = {'sensor': 'encoder', 'target': last, 'op': 'ge' if series[0] < thr else 'le', 'threshold': [thr, 'rad']}
    c2['history'] = [dict(case['history'][0], stop=True)] + list(case['history'][1:])
    return c2, t0[-1].n


def check(case) -> Result:
    res = Result()
    if case.get('stop_q') is not None:
        ws = _with_stop(case)
        case = {k: v for k, v in case.items() if k != 'stop_q'}
        if ws is not None:
            case, n_unstopped = ws
    r = SP.simulate_checked(case, res, ID)
    if r is None:
        return res
    b, traces, err = r
    mdl = b.model
    out = []
    n_acc = 0
    n = 0
    for tr, dts in SP.segments(case, traces):
        if not I.complete(tr) or not I.finite_trace(tr):
            res.classes += ('incomplete-or-nonfinite-trace',)
            continue
        n_acc += I.equation_of_motion(mdl, tr, dts, out)
        n += 3 * tr.n
    seen = set()
    for sig, msg in out:
        if sig not in seen:
            seen.add(sig)
            res.bad(sig, msg)
    res.count = max(n, 1)
    js = sorted(mdl.J)
    near = any(js[i + 1] / js[i] < 100 for i in range(len(js) - 1))
    res.nontrivial = n_acc >= 3 and any(x != 1.0 for x in mdl.ratios[1:]) and near
    if case.get('stop'):
        res.classes += ('stopped-early-then-continued' if traces and traces[0].n < n_unstopped else 'stop-condition-never-held',)
    res.classes += ('self-locking' if mdl.self_locking else 'free',
                    'controlled' if case.get('control') else 'uncontrolled',
                    'dt-unit:' + case['history'][0]['dt'][1])
    return res


def check_golden(case) -> Result:
    from vp import golden
    return golden.check_golden(case, ID, columns=('angular position', 'angular speed', 'angular acceleration', 'torque',
                                                   'driving torque', 'load torque'))


@st.composite
def s_case(draw, **kw):
    case = draw(G.s_case_controlled(**kw))
    h = case['history']
    if len(h) >= 2 and h[0]['op'] == 'run' and h[1]['op'] == 'run' and draw(st.integers(0, 1)) == 0:
        case['stop_q'] = draw(st.floats(0.05, 0.95))
    return case


def parts(tier):
    from vp import golden
    gold = Part('golden', check_golden, enumerate=golden.enum_golden, chunk=1)
    if tier == 'quick':
        return [gold, Part('chains', check, strategy=s_case(max_len=6, max_steps=30, nonmultiple=True), examples=250, shards=4)]
    return [gold, Part('chains', check, strategy=s_case(max_len=11, max_steps=120, nonmultiple=True), examples=2500, shards=16)]
