"""C03 — equation of motion and time-step update of the output element."""
from __future__ import annotations

import numpy as np

from vp.runner import Part, Result
from vp.oracle import units_si as U
from vp import gen as G
from vp import invariants as I
from vp import simprops as SP

ID = 'C03'
RULE = ('Valid powertrains by construction (as C01/C02, inertias in all 8 inertia units, dt and T in any of the 4 '
        'time units, optional duty-cycle histories, self-locking and free worm matings). For EVERY recorded '
        'instant: acceleration of the last element = its net torque / equivalent inertia, the inertia being '
        'recomputed from the case by the documented reduction (J <- J * ratio + J_i); exempt only instants at which '
        'a self-locking powertrain records all speeds and accelerations exactly zero. For EVERY pair of consecutive '
        'instants: advanced speed w* = w[k-1] + a[k-1] * dt (dt = the requested step of that run, in seconds), '
        'recorded speed = w* (or exactly 0 in a self-locking powertrain), position = theta[k-1] + w* * dt. '
        'Non-trivial = >= 3 instants with non-zero acceleration, a ratio != 1 and two element inertias within two '
        'decades (so that forgetting one is visible); distinct = canonical JSON. golden: the two worked examples of the '
        'documentation, simulated from their documented inputs, must reproduce the kinematic and torque columns of the '
        'snapshot tables printed there (t = 10 s) to the printed precision.')
ASSUMPTIONS = ['equivalent inertia by the documented reduction in vp/model.py',
               'additive tolerance 64 eps of the operands + 1e-9 of the increment (a wrong increment stays visible '
               'behind a large accumulated value)']


def check(case) -> Result:
    res = Result()
    r = SP.simulate_checked(case, res, ID)
    if r is None:
        return res
    b, traces, err = r
    mdl = b.model
    out = []
    n_acc = 0
    n = 0
    for tr, dts in SP.segments(case, traces):
        if not I.complete(tr) or not I.finite_trace(tr):
            res.classes += ('incomplete-or-nonfinite-trace',)
            continue
        n_acc += I.equation_of_motion(mdl, tr, dts, out)
        n += 3 * tr.n
    seen = set()
    for sig, msg in out:
        if sig not in seen:
            seen.add(sig)
            res.bad(sig, msg)
    res.count = max(n, 1)
    js = sorted(mdl.J)
    near = any(js[i + 1] / js[i] < 100 for i in range(len(js) - 1))
    res.nontrivial = n_acc >= 3 and any(x != 1.0 for x in mdl.ratios[1:]) and near
    res.classes += ('self-locking' if mdl.self_locking else 'free',
                    'controlled' if case.get('control') else 'uncontrolled',
                    'dt-unit:' + case['history'][0]['dt'][1])
    return res


def check_golden(case) -> Result:
    from vp import golden
    return golden.check_golden(case, ID, columns=('angular position', 'angular speed', 'angular acceleration', 'torque',
                                                   'driving torque', 'load torque'))


def parts(tier):
    from vp import golden
    gold = Part('golden', check_golden, enumerate=golden.enum_golden, chunk=1)
    if tier == 'quick':
        return [gold, Part('chains', check, strategy=G.s_case_controlled(max_len=6, max_steps=30, nonmultiple=True), examples=250, shards=4)]
    return [gold, Part('chains', check, strategy=G.s_case_controlled(max_len=11, max_steps=120, nonmultiple=True), examples=2500, shards=16)]
