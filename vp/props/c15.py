"""C15 — each control rule applies in its documented window with its documented value."""
from __future__ import annotations

import math

import numpy as np
from hypothesis import strategies as st

from vp.runner import Part, Result
from vp.oracle import units_si as U
from vp.oracle import rules as RU
from vp.oracle import motor as MO
from vp import build as B
from vp import gen as G
from vp import model as M
from vp import sim as S
from vp import invariants as I

ID = 'C15'
RULE = ('direct (Hypothesis): a valid powertrain (chains incl. wheel-drives-worm, motor with current data), one rule '
        'of each of the four kinds with all parameters in random units, encoder / tachometer on any element, and a '
        'state set through public attributes (time, sensed position and speed, motor load torque of either sign or '
        'none) placed on both sides of the rule\'s window boundary - generic states with a margin, and exact-boundary '
        'states from binary-exact numbers where inclusive / exclusive is decidable; rule.apply() is compared with '
        'the documented window and value (static error with the product of ALL mating efficiencies; minimum duty '
        'cycle; for StartLimitCurrent the larger root of the motor\'s own current law = limit, found by the oracle '
        'from the motor law). simulation (Hypothesis): whole controlled simulations with one or two rules; at every '
        'instant the recorded duty cycle must equal the clipped proposal recomputed from the RECORDED values, and '
        'wherever StartLimitCurrent is in force, unclipped, outside the dead zone, with the tachometer on the motor, '
        'the recorded current equals the limit (1e-9). Non-trivial = the state is within 5% of a window boundary or '
        'the rule is applied unclipped (simulation: some instant has an unclipped applied rule); distinct = '
        'canonical JSON.')
ASSUMPTIONS = ['limit currents are generated >= the no-load current (below it the documented square root has no real '
               'solution)', 'states within 1e-9 of a window boundary that are not binary-exact are not judged for '
               'applicability']


def _eta_total(mdl):
    return mdl.E


def _make_rule(b, r):
    # reuse the simulation builder for a single rule
    b.case = dict(b.case, control=[r])
    pc = S.build_control(b)
    return b.rules[0]


def _close(a, b, scale=1.0):
    return abs(a - b) <= 1e-9 * max(abs(a), abs(b), scale)


def check_direct(case) -> Result:
    res = Result()
    base = {k: v for k, v in case.items() if k not in ('rule', 'state')}
    base['history'] = []
    try:
        b = S.build(base)
    except Exception as e:  # noqa
        res.classes += (f'build-rejected:{type(e).__name__}',)
        res.build_error = e
        return res
    mdl = b.model
    r, stt = case['rule'], case['state']
    kind = r['rule']
    try:
        rule = _make_rule(b, r)
    except ValueError as e:
        res.classes += ('rule-rejected',)
        return res
    pt = b.powertrain
    pt.update_time(B.q('Time', stt['t']))
    t = U.si('Time', *stt['t'])
    if 'enc' in r:
        b.elements[r['enc']].angular_position = B.q('AngularPosition', stt['theta'])
    if 'tach' in r:
        b.elements[r['tach']].angular_speed = B.q('AngularSpeed', stt['speed'])
    Tl = None
    if stt.get('load') is not None:
        b.motor.load_torque = B.q('Torque', stt['load'])
        Tl = U.si('Torque', *stt['load'])
    theta = U.si('AngularPosition', *stt['theta']) if 'theta' in stt else None
    exact = bool(stt.get('exact'))
    try:
        got = rule.apply()
        raised = None
    except Exception as e:  # noqa
        got, raised = None, e
    near = False
    unclipped = False
    if kind == 'constant':
        a, d = U.si('Time', *r['start']), U.si('TimeInterval', *r['duration'])
        act = RU.constant_active(t, a, d)
        if stt.get('cross_unit_tie'):
            act = True                      # t and d denote the same magnitude (exactly, as decimals)
        margin = min(abs(t - a), abs(t - (a + d))) / max(d, 1e-300)
        near = margin <= 0.05
        amb = (not exact) and margin <= 1e-9
        val = r['value'] if act else None
    elif kind == 'reach':
        tgt, brk = U.si('AngularPosition', *r['target']), U.si('Angle', *r['braking'])
        err = RU.static_error(Tl, mdl.Tmax, brk, _eta_total(mdl))
        act, val = RU.reach(theta, tgt, brk, err)
        start = tgt - brk + err
        margin = abs(theta - start) / max(brk, 1e-300)
        near = margin <= 0.05
        amb = (not exact) and margin <= 1e-9
    elif kind == 'ramp':
        tgt = U.si('AngularPosition', *r['target'])
        cand = r['mult'] * RU.pwm_min_candidate(Tl if Tl is not None else 0.0, mdl.Tmax, mdl.i0, mdl.imax, _eta_total(mdl))
        if Tl is None:
            res.classes += ('no-load-torque',)
            return res
        if _cand_near_zero(cand, r['mult'], mdl):
            # the candidate is a difference of two terms that cancel to rounding: whether it is EXACTLY zero (the
            # library then falls back on pwm_min or raises) is too close to call
            res.classes += ('ramp-candidate-near-zero',)
            return res
        if cand != 0:
            dmin = cand
        elif r.get('pwm_min') is None:
            if not isinstance(raised, ValueError):
                res.bad('C15/ramp/missing-pwm-min-not-reported', f'{case}: candidate minimum duty cycle is 0 and no '
                        f'pwm_min given: expected ValueError, got {raised!r} / {got!r}')
            res.classes += ('ramp-missing-pwm-min',)
            return res
        else:
            dmin = r['pwm_min']
        act, val = RU.ramp(theta, tgt, dmin)
        margin = abs(theta - tgt) / max(abs(tgt), 1e-300)
        near = margin <= 0.05
        amb = (not exact) and margin <= 1e-9
    else:
        tgt = U.si('AngularPosition', *r['target'])
        w = U.si('AngularSpeed', *stt['speed'])
        ilim = U.si('Current', *r['limit'])
        act = theta <= tgt
        val = RU.limit_current_duty(w, mdl.w0, mdl.i0, mdl.imax, ilim) if act else None
        margin = abs(theta - tgt) / max(abs(tgt), 1e-300)
        near = margin <= 0.05
        amb = (not exact) and margin <= 1e-9
        if act and val is None:
            res.classes += ('limit-no-real-root',)
            return res
    res.classes += (f'rule:{kind}', 'exact-boundary' if exact else ('near-boundary' if near else 'far'),
                    'active' if act else 'inactive')
    if raised is not None:
        res.bad(f'C15/{kind}/apply-raises/{type(raised).__name__}',
                f'{kind} rule {r} in state {stt}: apply() raised {type(raised).__name__}: {raised}')
        res.nontrivial = True
        return res
    if amb:
        res.classes += ('ambiguous-boundary',)
        return res
    if act != (got is not None):
        side = 'inactive-inside-window' if act else 'active-outside-window'
        res.bad(f'C15/{kind}/window/{side}' + ('/exact-boundary' if exact else ''),
                f'{kind} rule {r} in state {stt}: apply() returned {got!r}, documented window says '
                f'{"applicable" if act else "not applicable"} (expected value {val!r})')
    elif act:
        if not _close(float(got), val):
            res.bad(f'C15/{kind}/value', f'{kind} rule {r} in state {stt}: apply() returned {got!r}, documented value '
                    f'{val!r}')
        unclipped = -1 <= val <= 1
        if kind == 'limit' and mdl.i0 / mdl.imax < val <= 1:
            # the rule's duty cycle must reproduce the limit through the motor's own law
            w = U.si('AngularSpeed', *stt['speed'])
            ie = RU.current_at(w, float(got), mdl.Tmax, mdl.w0, mdl.i0, mdl.imax)
            ilim = U.si('Current', *r['limit'])
            if not _close(ie, ilim, mdl.imax * MO.scale(w, float(got), mdl.w0) * 1e-3):
                res.bad('C15/limit/not-a-root-of-the-current-law', f'{case}: D={got!r} gives {ie!r} A, limit {ilim!r} A')
    res.nontrivial = near or exact or (act and unclipped)
    return res


# ---------------------------------------------------------------------------------------
def _proposals(case, mdl, tr, k):
    """expected proposal of every rule at instant k from the RECORDED values; None = not applicable;
    'amb' = too close to call"""
    out = []
    for r in case['control']:
        kind = r['rule']
        if kind == 'constant':
            a, d = U.si('Time', *r['start']), U.si('TimeInterval', *r['duration'])
            t = tr.t[k]
            if min(abs(t - a), abs(t - (a + d))) <= 1e-9 * max(a + d, 1e-300) and not (t == 0 and a == 0):
                out.append('amb')
            else:
                out.append(r['value'] if RU.constant_active(t, a, d) else None)
            continue
        theta = tr.get(r['enc'], 'angular position')[k]
        tgt = U.si('AngularPosition', *r['target'])
        Tl = tr.get(0, 'load torque')
        if kind == 'reach':
            brk = U.si('Angle', *r['braking'])
            err = RU.static_error(Tl[k], mdl.Tmax, brk, mdl.E)
            start = tgt - brk + err
            if abs(theta - start) <= 1e-9 * max(abs(start), brk):
                out.append('amb')
            else:
                out.append(RU.reach(theta, tgt, brk, err)[1])
        elif kind == 'ramp':
            cand = r['mult'] * RU.pwm_min_candidate(Tl[0], mdl.Tmax, mdl.i0, mdl.imax, mdl.E)
            dmin = cand if cand != 0 else r.get('pwm_min')
            if abs(theta - tgt) <= 1e-9 * abs(tgt) or _cand_near_zero(cand, r['mult'], mdl):
                out.append('amb')
            else:
                out.append(RU.ramp(theta, tgt, dmin)[1])
        else:
            w = tr.get(r['tach'], 'angular speed')[k]
            if abs(theta - tgt) <= 1e-9 * abs(tgt):
                out.append('amb')
            elif theta <= tgt:
                v = RU.limit_current_duty(w, mdl.w0, mdl.i0, mdl.imax, U.si('Current', *r['limit']))
                out.append(v if v is not None else 'amb')
            else:
                out.append(None)
    return out


def check_sim(case) -> Result:
    res = Result()
    try:
        b, traces, err = S.simulate(case)
    except Exception as e:  # noqa
        res.classes += (f'build-rejected:{type(e).__name__}',)
        res.build_error = e
        return res
    mdl = b.model
    if not traces:
        if err is not None:
            res.classes += (f'run-raised:{type(err).__name__}',)
            res.run_error = err
            if not (isinstance(err, ValueError) and 'simultaneously applicable' in str(err)):
                res.bad(f'C15/simulation-raises/{type(err).__name__}', f'controlled run raised {type(err).__name__}: {err}')
        return res
    from vp import simprops as SP
    segs = SP.segments(case, traces)
    for tr, _dts in segs:
        _check_epoch(case, mdl, tr, res)
        if res.violations:
            break
    res.classes += tuple(sorted({'rule:' + r['rule'] for r in case['control']})) + (f'epochs:{len(segs)}',)
    return res


def _check_epoch(case, mdl, tr, res):
    if not I.complete(tr) or not I.finite_trace(tr):
        res.classes += ('incomplete-or-nonfinite-trace',)
        return res
    pwm = tr.get(0, 'pwm')
    cur = tr.get(0, 'electric current') if 'electric current' in tr.vars[0] else None
    applied_unclipped = 0
    n_limit = 0
    for k in range(tr.n):
        props = _proposals(case, mdl, tr, k)
        if 'amb' in props:
            continue
        act = [p for p in props if p is not None]
        if len(act) >= 2:
            break                      # C14's business (the run must have raised)
        exp = min(max(act[0], -1), 1) if act else 1
        if not _close(pwm[k], exp):
            which = case['control'][[i for i, p in enumerate(props) if p is not None][0]]['rule'] if act else 'none'
            res.bad(f'C15/simulation/duty-cycle/{which}',
                    f'instant {k} (t={tr.t[k]!r}): recorded duty cycle {pwm[k]!r}, rule proposals recomputed from the '
                    f'recorded values {props} -> expected {exp!r}')
            break
        if act and -1 < act[0] < 1:
            applied_unclipped += 1
            ix = [i for i, p in enumerate(props) if p is not None][0]
            r = case['control'][ix]
            if r['rule'] == 'limit' and r['tach'] == 0 and cur is not None and act[0] > mdl.i0 / mdl.imax * (1 + 1e-9):
                n_limit += 1
                ilim = U.si('Current', *r['limit'])
                w = tr.get(0, 'angular speed')[k]
                if not abs(cur[k] - ilim) <= 1e-9 * mdl.imax * MO.scale(w, act[0], mdl.w0):
                    res.bad('C15/simulation/limit-current-not-held',
                            f'instant {k}: StartLimitCurrent in force (D={pwm[k]!r}, unclipped) but recorded current '
                            f'{cur[k]!r} A differs from the limit {ilim!r} A')
                    break
    res.hist['limit-instants'] = res.hist.get('limit-instants', 0) + n_limit
    res.hist['unclipped-applied-instants'] = res.hist.get('unclipped-applied-instants', 0) + applied_unclipped
    res.nontrivial = res.nontrivial or applied_unclipped > 0
    return res


# ---------------------------------------------------------------------------------------
@st.composite
def s_base(draw, max_len=5, locking=False):
    case = {'motor': draw(G.s_motor(currents=True)),
            'chain': draw(G.s_chain(max_len=max_len, worm=draw(st.sampled_from(['maybe', 'yes', 'no'])), locking=locking))}
    mdl = M.Model(case)
    case['load'] = G.s_load(draw, mdl, kinds=('const', 'speed'))
    case['init'] = G.s_init(draw, mdl, at_rest=True)
    G.add_variants(draw, case)
    return case, mdl


def _cand_near_zero(cand, mult, mdl):
    """the minimum duty cycle candidate mult * (a + i0/imax) with a < 0 cancelling i0/imax to within 1e-9"""
    b = abs(mult) * mdl.i0 / mdl.imax
    return cand != 0 and b > 0 and abs(cand) <= 1e-9 * b or (cand == 0 and b > 0)


def _exactq(kind, v, unit):
    return [v, unit]


@st.composite
def s_direct(draw):
    case, mdl = draw(s_base())
    n = mdl.n
    kind = draw(st.sampled_from(['constant', 'reach', 'ramp', 'limit']))
    exact = draw(st.integers(0, 3)) == 0
    enc = draw(st.integers(0, n - 1))
    side = draw(st.sampled_from([-1, 1]))
    off = draw(st.one_of(st.floats(1e-6, 0.05), st.floats(0.05, 2.0)))
    stt = {'t': [0.0, 'sec']}
    if kind == 'constant' and exact and draw(st.booleans()):
        # window [0, d] with d and t the same decimal magnitude written in two different units: the end is inclusive
        # and 'the same magnitude up to rounding' compares equal (C05), so the rule is applicable at t = d
        ms = draw(st.integers(1, 5000)) * draw(st.sampled_from([1, 10, 100]))
        units = draw(st.permutations(['sec', 'ms', 'min']))[:2]

        def lit(unit):
            from fractions import Fraction as Fr
            return [float(Fr(ms, 1000) / U.factor('Time', unit)), unit]
        r = {'rule': 'constant', 'start': [0, draw(st.sampled_from(['sec', 'ms']))], 'duration': lit(units[0]),
             'value': draw(st.floats(-1, 1))}
        stt['t'] = lit(units[1])
        stt['cross_unit_tie'] = True
    elif kind == 'constant':
        if exact:
            a, d = draw(st.integers(0, 64)) / 8, draw(st.integers(1, 64)) / 8
            r = {'rule': 'constant', 'start': [a, 'sec'], 'duration': [d, 'sec'],
                 'value': draw(st.one_of(st.floats(-1, 1), st.sampled_from([0, 0.0, 1, -1])))}
            stt['t'] = [draw(st.sampled_from([a, a + d, a - 0.125, a + d + 0.125, a + d / 2])), 'sec']
            stt['t'][0] = max(stt['t'][0], 0.0)
        else:
            a, d = draw(st.floats(0, 100)), draw(st.floats(0.01, 100))
            r = {'rule': 'constant', 'start': G.qty('Time', a, draw(G.s_unit('Time'))),
                 'duration': G.qty('TimeInterval', d, draw(G.s_unit('TimeInterval'))),
                 'value': draw(st.one_of(st.floats(-1, 1), st.sampled_from([0, 0.0, 1, -1])))}
            edge = draw(st.sampled_from([a, a + d]))
            stt['t'] = G.qty('Time', max(0.0, edge + side * off * d), draw(G.s_unit('Time')))
    else:
        # motor load torque: either sign, zero, or not yet computed
        lm = draw(st.sampled_from(['pos', 'pos', 'neg', 'zero', 'none']))
        if lm == 'none' and kind != 'ramp':
            stt['load'] = None
        else:
            f = {'pos': draw(st.floats(0.01, 0.9)), 'neg': -draw(st.floats(0.01, 0.9)), 'zero': 0.0,
                 'none': draw(st.floats(0.01, 0.9))}[lm]
            stt['load'] = G.qty('Torque', mdl.Tmax * f, draw(G.s_unit('Torque')))
        if exact:
            stt['load'] = None if kind == 'reach' else [0.0, 'Nm']
        Tl = U.si('Torque', *stt['load']) if stt.get('load') is not None else None
        if kind == 'reach':
            if exact:
                tgt, brk = float(draw(st.integers(2, 64))), float(draw(st.integers(1, 8))) / 4
                r = {'rule': 'reach', 'enc': enc, 'target': [tgt, 'rad'], 'braking': [brk, 'rad']}
                start = tgt - brk
                stt['theta'] = [draw(st.sampled_from([start, start - 0.25, start + 0.25, tgt])), 'rad']
            else:
                tgt, brk = draw(st.floats(1, 1000)), draw(st.floats(0.05, 50))
                r = {'rule': 'reach', 'enc': enc, 'target': G.qty('AngularPosition', tgt, draw(G.s_unit('AngularPosition'))),
                     'braking': G.qty('Angle', brk, draw(G.s_unit('Angle')))}
                tgt, brk = U.si('AngularPosition', *r['target']), U.si('Angle', *r['braking'])
                start = tgt - brk + RU.static_error(Tl, mdl.Tmax, brk, mdl.E)
                stt['theta'] = G.qty('AngularPosition', start + side * off * brk, draw(G.s_unit('AngularPosition')))
        elif kind == 'ramp':
            tgt = float(draw(st.integers(1, 64))) if exact else draw(st.floats(0.5, 1000))
            r = {'rule': 'ramp', 'enc': enc, 'target': [tgt, 'rad'] if exact else
                 G.qty('AngularPosition', tgt, draw(G.s_unit('AngularPosition'))),
                 'mult': draw(st.floats(1.01, 5)), 'pwm_min': draw(st.sampled_from([None, 0.1, 0.25]))}
            if exact:
                stt['theta'] = [draw(st.sampled_from([tgt, tgt + 0.5, tgt - 0.5, 0.0])), 'rad']
            else:
                tgt = U.si('AngularPosition', *r['target'])
                stt['theta'] = G.qty('AngularPosition', tgt * (1 + side * off), draw(G.s_unit('AngularPosition')))
        else:
            tgt = float(draw(st.integers(1, 64))) if exact else draw(st.floats(0.5, 1000))
            ilim = mdl.i0 + (mdl.imax - mdl.i0) * draw(st.floats(0.01, 1.2))
            r = {'rule': 'limit', 'enc': enc, 'tach': draw(st.sampled_from([0, 0, draw(st.integers(0, n - 1))])),
                 'target': [tgt, 'rad'] if exact else G.qty('AngularPosition', tgt, draw(G.s_unit('AngularPosition'))),
                 'limit': G.qty('Current', ilim, draw(G.s_unit('Current')))}
            if exact:
                stt['theta'] = [draw(st.sampled_from([tgt, tgt + 0.5, tgt - 0.5])), 'rad']
            else:
                tgt = U.si('AngularPosition', *r['target'])
                stt['theta'] = G.qty('AngularPosition', tgt * (1 + side * off), draw(G.s_unit('AngularPosition')))
            wscale = mdl.w0 * mdl.cum_ratio(0) / mdl.cum_ratio(r['tach']) if r['tach'] else mdl.w0
            stt['speed'] = G.qty('AngularSpeed', wscale * draw(st.one_of(st.floats(0, 1.1), st.floats(-0.6, 1.1))),
                               draw(G.s_unit('AngularSpeed')))
    stt['exact'] = exact
    case['rule'], case['state'] = r, stt
    return case


@st.composite
def s_sim(draw, max_steps=60):
    case, mdl = draw(s_base(max_len=4))
    n = mdl.n
    # keep the load below stall so that the powertrain actually travels
    case['load']['c0'] = mdl.stall_out * draw(st.floats(0.0, 0.5))
    run = G.s_run(draw, mdl, min_steps=10, max_steps=max_steps, c=(0.05, 0.5))
    T = U.si('TimeInterval', *run['T'])
    travel = mdl.noload_out * T * 0.5          # rough distance of the last element
    enc = draw(st.integers(0, n - 1))
    escale = travel * mdl.cum_ratio(enc)
    kinds = draw(st.sampled_from([['limit'], ['limit'], ['ramp'], ['reach'], ['ramp', 'reach'], ['limit', 'reach'],
                                  ['constant'], ['constant', 'reach']]))
    rules = []
    for kind in kinds:
        if kind == 'limit':
            ilim = mdl.i0 + (mdl.imax - mdl.i0) * draw(st.floats(0.05, 0.9))
            rules.append({'rule': 'limit', 'enc': enc, 'tach': draw(st.sampled_from([0, 0, 0, n - 1])),
                          'target': G.qty('AngularPosition', escale * draw(st.floats(0.1, 0.4)), draw(G.s_unit('AngularPosition'))),
                          'limit': G.qty('Current', ilim, draw(G.s_unit('Current')))})
        elif kind == 'ramp':
            rules.append({'rule': 'ramp', 'enc': enc,
                          'target': G.qty('AngularPosition', escale * draw(st.floats(0.1, 0.4)), draw(G.s_unit('AngularPosition'))),
                          'mult': draw(st.floats(1.05, 4)), 'pwm_min': 0.2})
        elif kind == 'reach':
            tgt = escale * draw(st.floats(0.6, 1.0))
            rules.append({'rule': 'reach', 'enc': enc,
                          'target': G.qty('AngularPosition', tgt, draw(G.s_unit('AngularPosition'))),
                          'braking': G.qty('Angle', tgt * draw(st.floats(0.05, 0.3)), draw(G.s_unit('Angle')))})
        else:
            a = T * draw(st.floats(0, 0.3))
            rules.append({'rule': 'constant', 'start': G.qty('Time', a, draw(G.s_unit('Time'))),
                          'duration': G.qty('TimeInterval', T * draw(st.floats(0.05, 0.2)), draw(G.s_unit('TimeInterval'))),
                          'value': G._duty(draw(st.one_of(st.floats(-1, 1), st.sampled_from([0, 0.0, 0.5, -0.5]))))})
    case['control'] = rules
    case['history'] = [dict(run, control=True)]
    if draw(st.integers(0, 2)) == 0:
        # the same rule objects serve a second epoch after a reset
        case['history'] += [{'op': 'reset', 'reinit': True}, dict(run, control=True, new_solver=draw(st.booleans()))]
    return case


def parts(tier):
    if tier == 'quick':
        return [Part('direct', check_direct, strategy=s_direct(), examples=400, shards=4),
                Part('simulation', check_sim, strategy=s_sim(), examples=150, shards=4)]
    return [Part('direct', check_direct, strategy=s_direct(), examples=8000, shards=8),
            Part('simulation', check_sim, strategy=s_sim(150), examples=1500, shards=8)]


def selftest():
    # the oracle's root really solves the motor law
    D = RU.limit_current_duty(50.0, 100.0, 0.2, 5.0, 2.0)
    assert abs(MO.current(50.0, D, 1.0, 100.0, 0.2, 5.0) - 2.0) < 1e-12
    assert RU.reach(6.0, 8.0, 2.0, 0.0) == (True, 1.0)
    assert RU.reach(5.99, 8.0, 2.0, 0.0)[0] is False
