"""C06 — quantity arithmetic is dimensionally sound; subtraction undoes addition."""
from __future__ import annotations

import math

from hypothesis import strategies as st

from vp.runner import Part, Result
from vp.oracle import units_si as U

ID = 'C06'
OPERANDS = U.KINDS + ['int', 'float']
OPS = ('add', 'sub', 'mul', 'div')
N_CELLS = sum(
    (len(U.UNITS[a]) if a in U.UNITS else 1) * (len(U.UNITS[b]) if b in U.UNITS else 1)
    for a in OPERANDS for b in OPERANDS if a in U.UNITS or b in U.UNITS) * len(OPS)

RULE = ('all-cells: Hypothesis draws SI magnitudes/signs/zero flags for the two operands; the checker then '
        f'evaluates EVERY operator cell: ordered pairs of 13 kinds + int + float x every unit of both x 4 '
        f'operators = {N_CELLS} cells per case, comparing outcome class, result kind (independent dimension '
        'table) and SI magnitude (independent SI table), plus the inverse laws (a+b)-b=a and a-b=-(b-a). '
        'random-cell: Hypothesis draws one cell with wide magnitudes (1e-9..1e9, ints, zeros); a quarter of the operands '
        'first go through a unit conversion (copy or in place), and a fifth have a derived copy converted in place before '
        'the operation - neither may change the outcome; in a quarter of the cells one operand object first takes part in a throw-away operation with the partner re-expressed in another unit (an operand is the same quantity after it was used). '
        'Non-trivial = the two operands use different units / at least one unit is not the SI unit, so a '
        'computation on raw .value would be visible; distinct = canonical JSON of the case.')
ASSUMPTIONS = [
    'dimension vectors and SI factors in vp/oracle/units_si.py',
    'TypeError is always an acceptable outcome (as the statement says); ValueError only when a sign-constrained '
    'kind is involved and the dictated value, or the value built in the left operand\'s own class, violates the '
    'constraint; ZeroDivisionError only for a zero divisor',
    'magnitudes are kept within 1e-9..1e9 SI so that results are finite and far from under/overflow',
]

# combinations the statement lists explicitly -> exact result kind
LISTED = {}
for t in ('Time', 'TimeInterval'):
    LISTED[('mul', 'AngularSpeed', t)] = 'AngularPosition'
    LISTED[('mul', t, 'AngularSpeed')] = 'AngularPosition'
    LISTED[('mul', 'AngularAcceleration', t)] = 'AngularSpeed'
    LISTED[('mul', t, 'AngularAcceleration')] = 'AngularSpeed'
LISTED[('div', 'Torque', 'InertiaMoment')] = 'AngularAcceleration'
LISTED[('div', 'Torque', 'Length')] = 'Force'
LISTED[('div', 'Force', 'Surface')] = 'Stress'
LISTED[('mul', 'Length', 'Length')] = 'Surface'

_ROOT = {k: U.PARENT.get(k, k) for k in U.KINDS}


def _is_num(k):
    return k in ('int', 'float')


def _dim(k):
    return (0, 0, 0, 0) if _is_num(k) else U.DIM[k]


def expected_kinds(op, ka, kb):
    """(strict_kind | None, acceptable result kinds incl. 'number') for a non-raising outcome.
    An empty acceptable set means: only TypeError is allowed."""
    if op in ('add', 'sub'):
        if _is_num(ka) or _is_num(kb):
            return None, set()
        if _ROOT[ka] != _ROOT[kb]:
            return None, set()
        if ka == kb:
            return ka, {ka}
        # sub-kind rules: Angle +- AngularPosition -> AngularPosition, TimeInterval +- Time -> Time
        return _ROOT[ka], {_ROOT[ka]}
    if op == 'mul':
        if _is_num(ka) and _is_num(kb):
            return None, {'number'}
        if _is_num(kb):
            return ka, {ka}
        if _is_num(ka):
            return kb, {kb}
        if (op, ka, kb) in LISTED:
            k = LISTED[(op, ka, kb)]
            return k, {k}
        d = tuple(x + y for x, y in zip(_dim(ka), _dim(kb)))
    else:
        if _is_num(kb):
            return ka, {ka}
        if not _is_num(ka) and _ROOT[ka] == _ROOT[kb]:
            return 'number', {'number'}
        if (op, ka, kb) in LISTED:
            k = LISTED[(op, ka, kb)]
            return k, {k}
        d = tuple(x - y for x, y in zip(_dim(ka), _dim(kb)))
    acc = {k for k in U.KINDS if U.DIM[k] == d}
    if d == (0, 0, 0, 0):
        acc.add('number')
    return None, acc


def make(kind, unit, si_mag):
    """operand of `kind` whose SI magnitude is (about) si_mag, expressed in `unit`"""
    if kind == 'int':
        return int(si_mag)
    if kind == 'float':
        return float(si_mag)
    v = si_mag / U.factor_f(kind, unit)
    return U.cls(kind)(v, unit)


def si_of(x):
    if isinstance(x, (int, float)):
        return 'number', float(x)
    k = type(x).__name__
    return k, x.value * U.factor_f(k, x.unit)


def do(op, a, b):
    if op == 'add':
        return a + b
    if op == 'sub':
        return a - b
    if op == 'mul':
        return a * b
    return a / b


def math_value(op, sa, sb):
    if op == 'add':
        return sa + sb
    if op == 'sub':
        return sa - sb
    if op == 'mul':
        return sa * sb
    return sa / sb if sb != 0 else math.nan


def close(op, got, exp, sa, sb):
    if op in ('add', 'sub'):
        return abs(got - exp) <= 1e-12 * (abs(sa) + abs(sb)) + 1e-300
    return abs(got - exp) <= 1e-9 * max(abs(got), abs(exp)) + 1e-300


def check_cell(op, ka, kb, a, b, out):
    """evaluate one cell; append (sig, msg) to out"""
    cell = f'{op}/{ka}-{kb}'
    _, sa = si_of(a)
    _, sb = si_of(b)
    strict, acc = expected_kinds(op, ka, kb)
    exp = math_value(op, sa, sb)
    try:
        r = do(op, a, b)
    except TypeError:
        return 'TypeError'
    except ZeroDivisionError:
        if op == 'div' and sb == 0:
            return 'ZeroDivisionError'
        out.append((f'C06/{cell}/zerodivision-nonzero-divisor', f'{a!r} {op} {b!r} raised ZeroDivisionError'))
        return 'bad'
    except ValueError as e:
        # acceptable only if a sign constraint is really at stake
        cands = []
        if not _is_num(ka):
            cands.append(ka)
        if strict and strict != 'number':
            cands.append(strict)
        cands += [k for k in acc if k != 'number']
        at_stake = False
        # 'violates' includes results within rounding distance of the boundary (the library decides in the
        # left operand's unit, the oracle in SI)
        slack = 1e-12 * (abs(sa) + abs(sb)) if op in ('add', 'sub') else 0.0
        for k in cands:
            if k in U.SIGN and not (isinstance(exp, float) and not math.isnan(exp)
                                    and U.sign_ok(k, exp) and abs(exp) > slack):
                at_stake = True
            # conservative rejection: a negative / null number multiplying or dividing a constrained kind
            if k in U.SIGN and op in ('mul', 'div'):
                for kk, sv in ((ka, sa), (kb, sb)):
                    if _is_num(kk) and sv <= 0:
                        at_stake = True
        if not at_stake:
            out.append((f'C06/{cell}/valueerror-without-constraint',
                        f'{a!r} {op} {b!r} raised ValueError({e}) although the result {exp!r} SI is valid'))
            return 'bad'
        return 'ValueError'
    except Exception as e:  # noqa
        out.append((f'C06/{cell}/wrong-exception', f'{a!r} {op} {b!r} raised {type(e).__name__}: {e}'))
        return 'bad'
    if r is None:
        out.append((f'C06/{cell}/none-result', f'{a!r} {op} {b!r} returned None'))
        return 'bad'
    from gearpy.units import UnitBase
    if isinstance(r, bool) or not isinstance(r, (int, float, UnitBase)):
        out.append((f'C06/{cell}/foreign-result', f'{a!r} {op} {b!r} returned {type(r).__name__}'))
        return 'bad'
    kr, sr = si_of(r)
    if not acc:
        out.append((f'C06/{cell}/result-where-typeerror-required',
                    f'{a!r} {op} {b!r} returned {r!r}; no dimensionally valid kind exists'))
        return 'bad'
    if strict and kr != strict:
        out.append((f'C06/{cell}/wrong-kind', f'{a!r} {op} {b!r} returned a {kr} ({r!r}), expected {strict}'))
        return 'bad'
    if kr not in acc:
        out.append((f'C06/{cell}/wrong-dimension', f'{a!r} {op} {b!r} returned a {kr} ({r!r}), '
                    f'dimensionally valid: {sorted(acc)}'))
        return 'bad'
    if not (isinstance(sr, float) and math.isfinite(sr)) or not close(op, sr, exp, sa, sb):
        what = 'magnitude'
        if op == 'sub' and sb != 0 and close('add', sr, sa + sb, sa, sb):
            what = 'adds'
        elif op == 'add' and sb != 0 and close('sub', sr, sa - sb, sa, sb):
            what = 'subtracts'
        out.append((f'C06/{cell}/{what}', f'{a!r} {op} {b!r} = {r!r}: SI {sr!r}, expected {exp!r} '
                    f'(operands SI {sa!r}, {sb!r})'))
        return 'bad'
    if kr != 'number' and not U.sign_ok(kr, r.value):
        out.append((f'C06/{cell}/invalid-result', f'{a!r} {op} {b!r} = {r!r} violates the sign constraint'))
        return 'bad'
    return 'value'


def inverse_laws(ka, kb, a, b, out):
    """(a + b) - b == a ; a - b == -(b - a) whenever both sides are defined"""
    _, sa = si_of(a)
    _, sb = si_of(b)
    n = 0
    try:
        s = a + b
        back = s - b
    except (TypeError, ValueError):
        back = None
    if back is not None:
        n += 1
        _, sback = si_of(back)
        if not close('add', sback, sa, sa, sb):
            out.append((_inv_sig('add-then-sub', ka, kb, a, b), f'({a!r} + {b!r}) - {b!r} = {back!r}, expected {a!r}'))
    try:
        d1 = a - b
        d2 = -(b - a)
    except (TypeError, ValueError):
        d1 = d2 = None
    if d1 is not None and d2 is not None:
        n += 1
        _, s1 = si_of(d1)
        _, s2 = si_of(d2)
        if not close('sub', s1, s2, sa, sb):
            out.append((_inv_sig('antisymmetry', ka, kb, a, b), f'{a!r} - {b!r} = {d1!r} but -({b!r} - {a!r}) = {d2!r}'))
    return n


def _inv_sig(law, ka, kb, a, b):
    # same root cause as a direct subtraction defect -> same signature
    for x, y, kx, ky in ((a, b, ka, kb), (b, a, kb, ka)):
        try:
            r = x - y
        except Exception:
            continue
        if r is None:
            continue
        _, sx = si_of(x)
        _, sy = si_of(y)
        _, sr = si_of(r)
        if sy != 0 and not close('sub', sr, sx - sy, sx, sy) and close('add', sr, sx + sy, sx, sy):
            return f'C06/sub/{kx}-{ky}/adds'
    return f'C06/inverse/{law}/{ka}-{kb}'


def _units_of(k):
    return list(U.UNITS[k]) if k in U.UNITS else [None]


def _operand_si(kind, mag, neg, zero):
    """SI magnitude honouring the kind's constraint"""
    s = U.SIGN.get(kind)
    if kind == 'int':
        m = max(1, int(round(mag * 7)) % 50 + 1)
        return 0 if zero else (-m if neg else m)
    if s == 'pos':
        return mag
    if s == 'nonneg':
        return 0.0 if zero else mag
    if zero:
        return 0.0
    return -mag if neg else mag


def check_all_cells(case) -> Result:
    res = Result()
    out = []
    n = 0
    n_nontrivial = 0
    classes = {}
    for ka in OPERANDS:
        for kb in OPERANDS:
            if _is_num(ka) and _is_num(kb):
                continue
            va = _operand_si(ka, case['mag_a'], case['neg_a'], case['zero_a'])
            vb = _operand_si(kb, case['mag_b'], case['neg_b'], case['zero_b'])
            for ua in _units_of(ka):
                for ub in _units_of(kb):
                    a = make(ka, ua, va)
                    b = make(kb, ub, vb)
                    for op in OPS:
                        n += 1
                        c = check_cell(op, ka, kb, a, b, out)
                        classes[c] = classes.get(c, 0) + 1
                    if not _is_num(ka) and not _is_num(kb) and _ROOT[ka] == _ROOT[kb]:
                        n += inverse_laws(ka, kb, a, b, out)
                    if ua != ub:
                        n_nontrivial += 1
    res.nontrivial = True
    res.hist = {f'cell-outcome:{k}': v for k, v in classes.items()}
    res.hist['cells-with-different-units'] = n_nontrivial
    seen = set()
    for sig, msg in out:
        if sig not in seen:
            seen.add(sig)
            res.bad(sig, msg)
    res.count = n
    return res


def check_one_cell(case) -> Result:
    res = Result()
    op, ka, kb = case['op'], case['ka'], case['kb']

    def mk(kind, unit, v):
        if kind == 'int':
            return int(v)
        if kind == 'float':
            return float(v)
        return U.cls(kind)(v, unit)
    try:
        a = mk(ka, case.get('ua'), case['va'])
        b = mk(kb, case.get('ub'), case['vb'])
        # metamorphic twist: an operand that went through a conversion (copy or in place) denotes the same magnitude
        for which, pre in (('a', case.get('pre_a')), ('b', case.get('pre_b'))):
            if pre and not _is_num(ka if which == 'a' else kb):
                x = a if which == 'a' else b
                units = list(U.UNITS[type(x).__name__])
                x2 = x.to(units[pre['unit_ix'] % len(units)], inplace=pre['inplace'])
                if which == 'a':
                    a = x2
                else:
                    b = x2
        # a derived copy of an operand is converted in place: the operand itself must not be affected
        for x, al in ((a, case.get('alias_a')), (b, case.get('alias_b'))):
            if al and hasattr(x, 'to'):
                units = list(U.UNITS[type(x).__name__])
                d = x.to(units[al['u1'] % len(units)])
                d.to(units[al['u2'] % len(units)], inplace=True)
    except ValueError:
        return Result(classes=('invalid-operand',))
    # an operand object that already took part in an operation with another partner (same kind as the real partner,
    # written in another unit) is the same quantity afterwards: whatever the outcome of the warm-up, the judged
    # operation must still be right
    sh = case.get('shared')
    if sh:
        x, y = (b, a) if sh['which'] == 'b' else (a, b)
        try:
            if hasattr(y, 'to'):
                units = list(U.UNITS[type(y).__name__])
                y = y.to(units[sh['unit_ix'] % len(units)])
            do(sh['op'], y, x) if sh['which'] == 'b' else do(sh['op'], x, y)
        except (TypeError, ValueError, ZeroDivisionError):
            pass
    out = []
    c = check_cell(op, ka, kb, a, b, out)
    if not _is_num(ka) and not _is_num(kb) and _ROOT[ka] == _ROOT[kb]:
        inverse_laws(ka, kb, a, b, out)
    res.classes = (f'outcome:{c}', f'op:{op}') + (('pre-converted',) if case.get('pre_a') or case.get('pre_b') else ()) + \
        (('shared-operand',) if sh else ())
    ua, ub = getattr(a, 'unit', None), getattr(b, 'unit', None)
    res.nontrivial = (ua != ub) and c in ('value', 'bad', 'ValueError')
    seen = set()
    for sig, msg in out:
        if sig not in seen:
            seen.add(sig)
            res.bad(sig, msg)
    return res


_mag = st.builds(lambda m, e: m * 10.0 ** e, st.floats(1, 10, exclude_max=True), st.integers(-3, 2))


@st.composite
def s_all_cells(draw):
    return {'mag_a': draw(_mag), 'mag_b': draw(_mag), 'neg_a': draw(st.booleans()), 'neg_b': draw(st.booleans()),
            'zero_a': draw(st.integers(0, 9)) == 0, 'zero_b': draw(st.integers(0, 9)) == 0}


def _s_val(kind):
    wide = st.builds(lambda m, e: m * 10.0 ** e, st.floats(1, 10, exclude_max=True), st.integers(-9, 8))
    if kind == 'int':
        return st.integers(-1000, 1000)
    s = U.SIGN.get(kind)
    pos = st.one_of(wide, st.integers(1, 1000))
    if s == 'pos':
        return pos
    if s == 'nonneg':
        return st.one_of(pos, st.sampled_from([0, 0.0]))
    return st.one_of(pos, pos.map(lambda x: -x), st.sampled_from([0, 0.0]))


@st.composite
def s_one_cell(draw):
    op = draw(st.sampled_from(OPS))
    ka = draw(st.sampled_from(OPERANDS))
    # bias towards meaningful partners
    if draw(st.booleans()):
        partners = [k for k in OPERANDS if expected_kinds(op, ka, k)[1]]
        kb = draw(st.sampled_from(partners or OPERANDS))
    else:
        kb = draw(st.sampled_from(OPERANDS))
    if _is_num(ka) and _is_num(kb):
        kb = 'Torque'
    case = {'op': op, 'ka': ka, 'kb': kb, 'va': draw(_s_val(ka)), 'vb': draw(_s_val(kb))}
    if not _is_num(ka):
        case['ua'] = draw(st.sampled_from(list(U.UNITS[ka])))
    if not _is_num(kb):
        case['ub'] = draw(st.sampled_from(list(U.UNITS[kb])))
    for key in ('pre_a', 'pre_b'):
        if draw(st.integers(0, 3)) == 0:
            case[key] = {'unit_ix': draw(st.integers(0, 16)), 'inplace': draw(st.booleans())}
    for key in ('alias_a', 'alias_b'):
        if draw(st.integers(0, 4)) == 0:
            case[key] = {'u1': draw(st.integers(0, 16)), 'u2': draw(st.integers(0, 16))}
    if draw(st.integers(0, 3)) == 0:
        case['shared'] = {'which': draw(st.sampled_from(['a', 'b'])), 'unit_ix': draw(st.integers(0, 16)),
                          'op': op if draw(st.booleans()) else draw(st.sampled_from(OPS))}
    return case


def parts(tier):
    if tier == 'quick':
        return [Part('all-cells', check_all_cells, strategy=s_all_cells(), examples=3, shards=4),
                Part('random-cell', check_one_cell, strategy=s_one_cell(), examples=3000, shards=4)]
    return [Part('all-cells', check_all_cells, strategy=s_all_cells(), examples=8, shards=16),
            Part('random-cell', check_one_cell, strategy=s_one_cell(), examples=40000, shards=16, fuzz_runs=150000,
                 fuzz_shards=8)]


def selftest():
    assert expected_kinds('mul', 'AngularSpeed', 'Time') == ('AngularPosition', {'AngularPosition'})
    assert expected_kinds('div', 'Torque', 'Force')[1] == {'Length'}
    assert expected_kinds('add', 'Torque', 'Force')[1] == set()
    assert expected_kinds('sub', 'Angle', 'AngularPosition')[0] == 'AngularPosition'
    assert expected_kinds('div', 'Length', 'Length')[0] == 'number'
