"""C20 — a powertrain is exactly the drive chain reachable from its motor."""
from __future__ import annotations

from hypothesis import strategies as st

from vp.runner import Part, Result
from vp.oracle import relations as R
from vp import build as B
from vp.props import c10 as C10

ID = 'C20'
RULE = ('Hypothesis draws a pool of 2..10 elements (names drawn from a small alphabet so that collisions occur, '
        'one or two motors) and 1..14 declaration calls in any order, including re-declarations that re-route a '
        'master to another slave; calls that would close a cycle in the model graph are skipped. Then a '
        'Powertrain is assembled from every motor and compared with the walk over the model graph '
        '(drives[master] = slave of each accepted call): same elements, same order, each once; ValueError when '
        'the motor drives nothing; NameError when two reached elements share a name; self_locking = some reached '
        'worm gear whose last mating satisfied f > cos(alpha) tan(beta); elements is a tuple; assigning elements '
        'or self_locking raises; declarations made afterwards do not alter the assembled powertrain. '
        'Non-trivial = a re-routing happened before assembly, or a name collision is reached, or a worm mating '
        'is in the chain; distinct = canonical JSON.')
ASSUMPTIONS = [
    'cycles in the drives graph are outside the domain (the library\'s walk would not terminate)',
    'whether a declaration call is accepted is taken from the call itself (C10 judges acceptance)',
]

FN = C10.FN


def check(case) -> Result:
    import gearpy.utils as gu
    from gearpy.powertrain import Powertrain
    res = Result()
    specs = case['elements']
    try:
        els = [B.make_element(s, name=s['name']) for s in specs]
    except Exception as e:  # noqa
        return Result(classes=(f'element-rejected:{type(e).__name__}',))
    n = len(els)
    drives = {}            # model graph: index -> index
    flag = {}              # worm index -> self-locking flag of its last accepted mating (None = too close)
    rerouted = False
    classes = set()

    def reaches(a, b):
        seen = set()
        while a in drives and a not in seen:
            seen.add(a)
            a = drives[a]
            if a == b:
                return True
        return False

    def declare(call):
        nonlocal rerouted
        mi, si = call['m'] % n, call['s'] % n
        if mi == si or reaches(si, mi):
            return
        if specs[si]['type'] == 'motor':
            return
        fn = call['fn']
        args = dict(master=els[mi], slave=els[si])
        if fn == 'gear':
            args['efficiency'] = call['x']
        elif fn == 'worm':
            args['friction_coefficient'] = call['x']
        try:
            getattr(gu, FN[fn])(**args)
        except Exception:  # noqa
            return
        if mi in drives and drives[mi] != si:
            rerouted = True
        drives[mi] = si
        if fn == 'worm':
            _, _, exp = R.worm_mating(specs[mi], specs[si], call['x'])
            flag[mi if specs[mi]['type'] == 'worm' else si] = exp.get('self_locking') if exp else None

    early = case.get('early_at')
    for ci, call in enumerate(case['calls']):
        if early is not None and ci == early:
            # a first assembly half-way through the declarations: powertrains built later must not inherit anything
            for mi0, s0 in enumerate(specs):
                if s0['type'] == 'motor' and not reaches(mi0, mi0):
                    try:
                        Powertrain(motor=els[mi0])
                    except Exception:  # noqa
                        pass
            classes.add('early-assembly')
        declare(call)

    def expected_chain(motor_ix):
        chain = [motor_ix]
        while chain[-1] in drives:
            chain.append(drives[chain[-1]])
        return chain

    built = []
    for mi, s in enumerate(specs):
        if s['type'] != 'motor':
            continue
        chain = expected_chain(mi)
        names = [specs[i]['name'] for i in chain]
        ctx = f'motor {mi}: model chain {chain} names {names}'
        # the library's own links, walked with a step limit: links that no accepted declaration created (e.g. left
        # behind by a rejected call) could close a cycle on which Powertrain() would never return
        actual, cur = [mi], els[mi]
        while getattr(cur, 'drives', None) is not None and len(actual) <= n + 1:
            cur = cur.drives
            actual.append(next((k for k, e in enumerate(els) if e is cur), None))
        if len(actual) > n + 1:
            res.bad('C20/links-without-accepted-declaration/cycle',
                    f'{ctx}: following drives from the motor never ends ({actual[:8]}...) although every accepted '
                    f'declaration was acyclic')
            continue
        try:
            pt = Powertrain(motor=els[mi])
            err = None
        except Exception as e:  # noqa
            pt, err = None, e
        if len(chain) == 1:
            classes.add('motor-drives-nothing')
            if not isinstance(err, ValueError):
                res.bad('C20/unconnected-motor-accepted', f'{ctx}: expected ValueError, got {err!r}')
            continue
        if len(set(names)) < len(names):
            classes.add('duplicate-name')
            if not isinstance(err, NameError):
                res.bad('C20/duplicate-name-accepted', f'{ctx}: expected NameError, got {err!r}')
            continue
        if err is not None:
            res.bad(f'C20/valid-chain-rejected/{type(err).__name__}', f'{ctx}: {type(err).__name__}: {err}')
            continue
        classes.add(f'chain-len:{min(len(chain), 6)}')
        got = pt.elements
        if not isinstance(got, tuple):
            res.bad('C20/elements-not-tuple', f'{ctx}: elements is a {type(got).__name__}')
        if len(got) != len(chain) or any(g is not els[i] for g, i in zip(got, chain)):
            res.bad('C20/chain-mismatch', f'{ctx}: powertrain has {[getattr(g, "name", g) for g in got]} '
                    f'(indices {[next((k for k, e in enumerate(els) if e is g), None) for g in got]})')
        worms = [i for i in chain if specs[i]['type'] == 'worm']
        flags = [flag.get(i, False) for i in worms]
        # a worm reached through a joint only (never mated) has flag None in the library -> not self-locking
        if None not in [flag[i] for i in worms if i in flag]:
            exp_sl = any(f is True for f in flags)
            if pt.self_locking is not exp_sl:
                res.bad('C20/self-locking-flag', f'{ctx}: self_locking={pt.self_locking!r}, worms {worms} '
                        f'flags {flags}')
            if worms:
                classes.add('worm-in-chain:' + ('locking' if exp_sl else 'free'))
        for attr, val in (('elements', ()), ('self_locking', True)):
            try:
                setattr(pt, attr, val)
                res.bad(f'C20/{attr}-assignable', f'{ctx}: assigning powertrain.{attr} did not raise')
            except AttributeError:
                pass
            except Exception as e:  # noqa
                res.bad(f'C20/{attr}-assignable', f'{ctx}: assigning powertrain.{attr} raised {type(e).__name__}')
        built.append((pt, chain, pt.self_locking, ctx))

    # later declarations do not alter an assembled powertrain
    for call in case.get('later', []):
        declare(call)
    for pt, chain, sl, ctx in built:
        got = pt.elements
        if len(got) != len(chain) or any(g is not els[i] for g, i in zip(got, chain)) or pt.self_locking is not sl:
            res.bad('C20/altered-by-later-declaration', f'{ctx}: after later declarations the powertrain has '
                    f'{[g.name for g in got]} self_locking={pt.self_locking}')
    if case.get('later') and built:
        classes.add('later-declarations')
    if rerouted:
        classes.add('rerouted')
    res.nontrivial = bool(built or 'duplicate-name' in classes) and bool(
        rerouted or 'duplicate-name' in classes or any(c.startswith('worm-in-chain') for c in classes))
    res.classes = tuple(sorted(classes))
    return res


@st.composite
def s_case(draw):
    n_el = draw(st.integers(2, 10))
    els = [{'type': 'motor', 'w0': [1000, 'rpm'], 'tmax': [1, 'Nm']}]
    for _ in range(n_el - 1):
        e = draw(C10.s_element())
        if e['type'] == 'motor' and draw(st.booleans()):
            e = {'type': 'flywheel'}
        if e['type'] == 'motor':
            e.update(w0=[1000, 'rpm'], tmax=[1, 'Nm'])
        els.append(e)
        if e['type'] in ('worm', 'wheel') and draw(st.booleans()):
            p = dict(e)
            p['type'] = 'wheel' if e['type'] == 'worm' else 'worm'
            p.pop('n_teeth', None), p.pop('n_starts', None), p.pop('module', None)
            if p['type'] == 'wheel':
                p['n_teeth'] = draw(st.integers(10, 120))
            else:
                p['n_starts'] = draw(st.integers(1, 4))
            els.append(p)
    alphabet = [f'n{i}' for i in range(len(els) + (0 if draw(st.integers(0, 3)) == 0 else 8))]
    unique = draw(st.integers(0, 2)) > 0
    for i, e in enumerate(els):
        e['name'] = f'u{i}' if unique else draw(st.sampled_from(alphabet))
    n = len(els)
    good = {'gear': [], 'worm': [], 'joint': []}
    for i in range(n):
        for j in range(n):
            if i == j:
                continue
            if not R.gear_mating(els[i], els[j], False, 0.9)[0]:
                good['gear'].append((i, j))
            if not R.fixed_joint(els[i], els[j], False)[0]:
                good['joint'].append((i, j))
            if not R.worm_mating(els[i], els[j], 0.05)[0]:
                good['worm'].append((i, j))
    num = st.one_of(st.floats(0, 1), st.sampled_from([0.0, 0.05, 0.1, 0.3, 0.5, 0.9, 1.0]))

    def s_call():
        fn = draw(st.sampled_from(['gear', 'worm', 'joint', 'joint']))
        if good[fn] and draw(st.integers(0, 4)) > 0:
            m, s = draw(st.sampled_from(good[fn]))
        else:
            m, s = draw(st.integers(0, n - 1)), draw(st.integers(0, n - 1))
        # chains should mostly start at a motor and continue where the previous call ended
        return {'fn': fn, 'm': m, 's': s, 'x': draw(num)}
    calls = []
    last = 0
    for _ in range(draw(st.integers(1, 14))):
        c = s_call()
        if draw(st.booleans()):
            # continue the chain: master = previous slave, pick a function that accepts the pair if any
            c['m'] = last
            opts = [(f, j) for f in good for (i, j) in good[f] if i == last]
            if opts:
                c['fn'], c['s'] = draw(st.sampled_from(opts))
        calls.append(c)
        last = c['s']
    later = [s_call() for _ in range(draw(st.integers(0, 3)))]
    early_at = draw(st.integers(0, max(0, len(calls) - 1))) if draw(st.integers(0, 2)) == 0 else None
    worm_calls = [c for c in calls if c['fn'] == 'worm']
    if worm_calls and draw(st.booleans()):
        # re-declare an earlier worm mating with a friction coefficient on the other side of the criterion
        c = dict(draw(st.sampled_from(worm_calls)))
        c['x'] = draw(st.sampled_from([0.0, 0.01, 0.9, 0.99, 1.0]))
        later.append(c)
    return {'elements': els, 'calls': calls, 'later': later, 'early_at': early_at}


def check_lifecycle(case) -> Result:
    """elements and the self-locking flag of a powertrain stay what they were through runs, early stops, resets and
    reruns"""
    from vp import sim as S
    from vp import model as M
    res = Result()
    try:
        b = S.build(case)
    except Exception as e:  # noqa
        res.classes += (f'build-rejected:{type(e).__name__}',)
        return res
    mdl = b.model
    pt = b.powertrain
    els0 = tuple(pt.elements)
    if not mdl.locking_ambiguous and pt.self_locking is not mdl.self_locking:
        res.bad('C20/self-locking-flag', f'assembled powertrain self_locking={pt.self_locking!r}, model says {mdl.self_locking!r}')
    sl0 = pt.self_locking
    for j, op in enumerate(case['history']):
        if op['op'] == 'reset' and case.get('later_decl'):
            # further declarations on the same parts between the run and the reset: a flywheel joined to the tail, the
            # worm pair declared again with another friction coefficient. The assembled powertrain stays what it was.
            import gearpy.utils as gu
            from vp import build as B
            ld = case['later_decl']
            try:
                if ld.get('flywheel'):
                    gu.add_fixed_joint(master=b.last, slave=B.make_element({'type': 'flywheel', 'J': [1e-6, 'kgm^2']}, 'late'))
                for i, spec in enumerate(mdl.elements):
                    if i and spec['link']['kind'] == 'worm' and ld.get('friction') is not None:
                        gu.add_worm_gear_mating(master=b.elements[i - 1], slave=b.elements[i],
                                                friction_coefficient=ld['friction'])
                res.classes += ('later-declarations-before-reset',)
            except (ValueError, TypeError):
                res.classes += ('later-declaration-rejected',)
        try:
            S.run_op(b, op)
        except Exception as e:  # noqa
            res.classes += ('run-raised',)
            break
        if pt.self_locking is not sl0 or tuple(pt.elements) != els0 or any(x is not y for x, y in zip(pt.elements, els0)):
            res.bad(f'C20/changed-by-{op["op"]}', f'after op {j} ({op["op"]}): self_locking {sl0!r} -> {pt.self_locking!r}, '
                    f'elements {[e.name for e in pt.elements]}')
            break
    res.nontrivial = any(e['type'] == 'worm' for e in mdl.elements) and len(case['history']) >= 2
    res.classes += ('self-locking' if mdl.self_locking else 'free', f'ops:{len(case["history"])}')
    return res


@st.composite
def s_life(draw):
    from vp import gen as G
    case = draw(G.s_case(max_len=5, worm='yes', max_steps=12, histories=('run+continue', 'reset+rerun')))
    if draw(st.booleans()):
        case['later_decl'] = {'flywheel': draw(st.booleans()),
                              'friction': draw(st.sampled_from([None, 0.01, 0.05, 0.3, 0.6, 0.9]))}
    return case


def parts(tier):
    from vp import gen as G
    life = Part('lifecycle', check_lifecycle,
                strategy=s_life(),
                examples=100 if tier == "quick" else 1500, shards=2 if tier == "quick" else 4)
    if tier == 'quick':
        return [Part('assembly', check, strategy=s_case(), examples=1200, shards=4), life]
    return [Part('assembly', check, strategy=s_case(), examples=12000, shards=12), life]
