"""C02 — torque propagation and balance along the chain at every instant."""
from __future__ import annotations

import numpy as np

from vp.runner import Part, Result
from vp import gen as G
from vp import invariants as I
from vp import simprops as SP

ID = 'C02'
RULE = ('Valid powertrains by construction (as C01) with a recording load function T = c0 + cw*w + csin*sin(k*theta) '
        '+ ct*tri(t/P) (returned in a random torque unit), efficiencies in (0,1], optional disjoint ConstantPWM '
        'windows producing duty-cycle histories (values in [-1,1] incl. 0 and negatives), histories run | '
        'run+continue | run,reset,rerun. At EVERY recorded instant: motor driving torque = characteristic at the '
        'recorded speed and duty cycle; each follower\'s driving torque = driver\'s x efficiency x ratio; load '
        'torque of the last element = the load function evaluated by the oracle at the RECORDED position, speed '
        'and time of that instant; upstream load = follower\'s / efficiency / ratio; net = driving - load. '
        'Efficiencies (incl. the worm friction formula) and ratios are recomputed from the case. Non-trivial = '
        'some efficiency < 1, the load depends on time or state, and the duty cycle or the motor speed varies; '
        'distinct = canonical JSON.')
ASSUMPTIONS = ['vp/model.py (ratios, efficiencies, load function), vp/oracle/motor.py', 'multiplicative tolerance '
               '1e-9; net torque within 64 eps of |driving| + |load|']


def check(case) -> Result:
    res = Result()
    r = SP.simulate_checked(case, res, ID)
    if r is None:
        return res
    b, traces, err = r
    mdl = b.model
    out = []
    n = 0
    varying = False
    for tr, dts in SP.segments(case, traces):
        if not I.complete(tr) or not I.finite_trace(tr):
            res.classes += ('incomplete-or-nonfinite-trace',)
            continue
        n += I.torque_balance(mdl, tr, out)
        pwm, wm = tr.get(0, 'pwm'), tr.get(0, 'angular speed')
        varying = varying or bool(np.ptp(pwm) > 0 or np.ptp(wm) > 0)
    seen = set()
    for sig, msg in out:
        if sig not in seen:
            seen.add(sig)
            res.bad(sig, msg)
    res.count = max(n, 1)
    ld = case['load']
    dep = bool(ld['cw'] or ld['csin'] or ld['ct'])
    res.nontrivial = varying and dep and any(e < 1 for e in mdl.etas[1:])
    res.classes += ('controlled' if case.get('control') else 'uncontrolled',
                    'load-depends' if dep else 'load-constant',
                    'worm' if any(e['type'] == 'worm' for e in mdl.elements) else 'no-worm')
    return res


def parts(tier):
    if tier == 'quick':
        return [Part('chains', check, strategy=G.s_case_controlled(max_len=6, max_steps=30, nonmultiple=True), examples=250, shards=4)]
    return [Part('chains', check, strategy=G.s_case_controlled(max_len=11, max_steps=120, nonmultiple=True), examples=2500, shards=16)]
