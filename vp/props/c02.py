"""C02 — torque propagation and balance along the chain at every instant."""
from __future__ import annotations

import numpy as np
from hypothesis import strategies as st

from vp.runner import Part, Result
from vp import gen as G
from vp import invariants as I
from vp import simprops as SP

ID = 'C02'
RULE = ('Valid powertrains by construction (as C01) with a recording load function T = c0 + cw*w + csin*sin(k*theta) '
        '+ ct*tri(t/P) (returned in a random torque unit), efficiencies in (0,1], optional disjoint ConstantPWM '
        'windows producing duty-cycle histories (values in [-1,1] incl. 0 and negatives), histories run | '
        'run+continue | run,reset,rerun. At EVERY recorded instant: motor driving torque = characteristic at the '
        'recorded speed and duty cycle; each follower\'s driving torque = driver\'s x efficiency x ratio; load '
        'torque of the last element = the load function evaluated by the oracle at the RECORDED position, speed '
        'and time of that instant; upstream load = follower\'s / efficiency / ratio; net = driving - load. '
        'In a quarter of the cases an intermediate gear carries a second external load: its load torque must be its own '
        'function at its recorded state (and the elements upstream of it propagate from there). Efficiencies (incl. the worm friction formula) and ratios are recomputed from the case. Non-trivial = '
        'some efficiency < 1, the load depends on time or state, and the duty cycle or the motor speed varies; '
        'distinct = canonical JSON.')
ASSUMPTIONS = ['vp/model.py (ratios, efficiencies, load function), vp/oracle/motor.py', 'multiplicative tolerance '
               '1e-9; net torque within 64 eps of |driving| + |load|']


def check(case) -> Result:
    res = Result()
    r = SP.simulate_checked(case, res, ID)
    if r is None:
        return res
    b, traces, err = r
    mdl = b.model
    out = []
    n = 0
    varying = False
    for tr, dts in SP.segments(case, traces):
        if not I.complete(tr) or not I.finite_trace(tr):
            res.classes += ('incomplete-or-nonfinite-trace',)
            continue
        n += I.torque_balance(mdl, tr, out)
        pwm, wm = tr.get(0, 'pwm'), tr.get(0, 'angular speed')
        varying = varying or bool(np.ptp(pwm) > 0 or np.ptp(wm) > 0)
    seen = set()
    for sig, msg in out:
        if sig not in seen:
            seen.add(sig)
            res.bad(sig, msg)
    res.count = max(n, 1)
    ld = case['load']
    dep = bool(ld['cw'] or ld['csin'] or ld['ct'])
    res.nontrivial = varying and dep and any(e < 1 for e in mdl.etas[1:])
    res.classes += ('controlled' if case.get('control') else 'uncontrolled',
                    'load-depends' if dep else 'load-constant',
                    'worm' if any(e['type'] == 'worm' for e in mdl.elements) else 'no-worm')
    return res


@st.composite
def s_case(draw, **kw):
    from vp import model as MM
    case = draw(G.s_case_controlled(**kw))
    cands = [i + 1 for i, e in enumerate(case['chain'][:-1]) if e['type'] in ('spur', 'helical', 'wheel', 'worm')]
    if cands and draw(st.integers(0, 3)) == 0:
        # a second user load on an intermediate element (soft, constant + speed dependent)
        mdl = MM.Model(case)
        at = draw(st.sampled_from(cands))
        r = mdl.cum_ratio(at)
        stall_at = mdl.stall_out / r if r else mdl.stall_out
        case['load2'] = {'at': at, 'c0': stall_at * draw(st.floats(-0.3, 0.3)),
                         'cw': abs(stall_at) / (mdl.noload_out * r) * draw(st.floats(0, 0.2)) if r else 0.0,
                         'csin': 0.0, 'kpos': 1.0, 'ct': 0.0, 'period': 1.0, 'unit': draw(G.s_unit('Torque'))}
    return case


def parts(tier):
    if tier == 'quick':
        return [Part('chains', check, strategy=s_case(max_len=6, max_steps=30, nonmultiple=True), examples=250, shards=4)]
    return [Part('chains', check, strategy=s_case(max_len=11, max_steps=120, nonmultiple=True), examples=2500, shards=16)]
