"""C05 — unit conversion agrees with SI definitions; comparisons are unit-blind."""
from __future__ import annotations

from fractions import Fraction as Fr

from hypothesis import strategies as st

from vp.runner import Part, Result
from vp.oracle import units_si as U

ID = 'C05'
RULE = ('convert: Hypothesis draws (kind, value in +-[1e-12,1e12] incl. ints and 0 where allowed); the '
        'checker converts between ALL ordered unit pairs of the kind (607 ordered pairs over 13 kinds) and compares '
        'with an exact rational SI table (<=16 ulp), checks copy/in-place agreement and round trips; '
        'non-trivial = value != 0 (every case exercises pairs with u1 != u2). '
        'compare: Hypothesis draws two operands (magnitudes 1e-30..1e30) in (possibly different) units, either FAR (SI magnitudes '
        'differ by a relative gap >= 1e-9, or in sign, or zero vs non-zero) or SAME (second obtained from the '
        'first by 1-3 library conversions, ending in another unit); all six operators are evaluated with '
        'either operand on the left and compared with the order of the exact SI magnitudes; non-trivial = '
        'operands in different units. sequences: chains of 2..8 conversions (copy and in place) on one object; the SI '
        'magnitude must be invariant at every step. Distinct = distinct canonical JSON of the case.')
ASSUMPTIONS = [
    'SI unit definitions in vp/oracle/units_si.py (written from the SI brochure, pi to 60 digits) are correct',
    'pairs closer than 1e-9 relative but not produced by conversions are unconstrained ("rounding" is left to '
    'the implementation by the property)',
    'same-unit comparisons are exact by design and outside the statement (which speaks of different units)',
]

CONV_ULP = 16
OPS = ('eq', 'ne', 'lt', 'le', 'gt', 'ge')


def _apply(op, a, b):
    if op == 'eq':
        return a == b
    if op == 'ne':
        return a != b
    if op == 'lt':
        return a < b
    if op == 'le':
        return a <= b
    if op == 'gt':
        return a > b
    return a >= b


# ---------------------------------------------------------------------------------------
def check_convert(case) -> Result:
    res = Result()
    kind, v = case['kind'], case['value']
    cls = U.cls(kind)
    res.nontrivial = v != 0
    res.classes = (f'kind:{kind}', 'int' if isinstance(v, int) else 'float')
    bad = []
    for u1 in U.UNITS[kind]:
        for u2 in U.UNITS[kind]:
            q = cls(v, u1)
            r = q.to(u2)
            exp = U.convert(kind, v, u1, u2)
            if type(r) is not cls:
                bad.append(('class', u1, u2, type(r).__name__))
                continue
            if r.unit != u2:
                bad.append(('unit-label', u1, u2, r.unit))
            if U.ulps(float(r.value), exp) > CONV_ULP:
                bad.append(('factor', u1, u2, r.value, exp))
            if not (q.value == v and q.unit == u1 and type(q.value) is type(v)):
                bad.append(('receiver-mutated', u1, u2, q.value, q.unit))
            q2 = cls(v, u1)
            r2 = q2.to(u2, inplace=True)
            if r2 is not q2:
                bad.append(('inplace-not-self', u1, u2))
            if not (q2.unit == u2 and q2.value == r.value):
                bad.append(('inplace-differs', u1, u2, q2.value, q2.unit, r.value))
            back = r.to(u1)
            if back.unit != u1 or U.ulps(float(back.value), float(v)) > 2 * CONV_ULP:
                bad.append(('round-trip', u1, u2, back.value, v))
    if bad:
        kinds_of = sorted({b[0] for b in bad})
        for k in kinds_of:
            first = next(b for b in bad if b[0] == k)
            n = sum(1 for b in bad if b[0] == k)
            res.bad(f'C05/convert/{kind}/{k}',
                    f'{kind}({v!r}): {n} unit pairs fail [{k}], first {first[1]}->{first[2]}: {first[3:]}')
    return res


def s_value(kind, wide=False):
    sign = U.SIGN.get(kind)
    mag = st.one_of(
        st.builds(lambda m, e: m * 10.0 ** e, st.floats(1, 10, exclude_max=True),
                  st.integers(-30, 30) if wide else st.integers(-12, 11)),
        st.sampled_from([1.0, 0.5, 0.1, 0.3, 1e-3, 1e3, 60.0, 3600.0, 180.0, 9.80665, 2.5e-7, 12345.678]),
        st.integers(1, 10 ** 6),
    )
    if sign == 'pos':
        return mag
    if sign == 'nonneg':
        return st.one_of(mag, st.sampled_from([0, 0.0]))
    return st.one_of(mag, mag.map(lambda x: -x), st.sampled_from([0, 0.0]))


@st.composite
def s_convert(draw):
    kind = draw(st.sampled_from(U.KINDS))
    return {'kind': kind, 'value': draw(s_value(kind))}


# ---------------------------------------------------------------------------------------
def _related(kind):
    """kinds comparable with `kind` (itself, its parent, its child)"""
    out = [kind]
    if kind in U.PARENT:
        out.append(U.PARENT[kind])
    out += [c for c, p in U.PARENT.items() if p == kind]
    return out


def check_compare(case) -> Result:
    res = Result()
    ka, kb = case['kind_a'], case['kind_b']
    ua, ub = case['unit_a'], case['unit_b']
    va = case['value_a']
    a = U.cls(ka)(va, ua)
    mode = case['mode']
    if mode == 'same':
        q = U.cls(kb)(va, ua)
        for u in case['chain']:
            q = q.to(u)
        b = q.to(ub)
        if ub == ua:
            return res
    else:
        vb = case['value_b']
        b = U.cls(kb)(vb, ub)
    sa = U.si_exact(ka, a.value, ua)
    sb = U.si_exact(kb, b.value, ub)
    res.classes = (f'mode:{mode}', 'cross-subkind' if ka != kb else 'same-kind',
                   'diff-unit' if ua != ub else 'same-unit')
    res.nontrivial = ua != ub
    if mode == 'far':
        m = max(abs(sa), abs(sb))
        if m == 0 or abs(sa - sb) < Fr(1, 10 ** 9) * m:
            return Result(classes=('discarded-not-far',))
        order = -1 if sa < sb else 1
        expect = {'eq': False, 'ne': True, 'lt': order < 0, 'le': order < 0,
                  'gt': order > 0, 'ge': order > 0}
    else:
        expect = {'eq': True, 'ne': False, 'lt': False, 'le': True, 'gt': False, 'ge': True}
    wrong = []
    for op in OPS:
        got = _apply(op, a, b)
        if got is not expect[op] and got != expect[op]:
            wrong.append(f'a {op} b -> {got}')
    # mirrored: b on the left
    mirror = {'eq': 'eq', 'ne': 'ne', 'lt': 'gt', 'le': 'ge', 'gt': 'lt', 'ge': 'le'}
    for op in OPS:
        got = _apply(mirror[op], b, a)
        if got != expect[op]:
            wrong.append(f'b {mirror[op]} a -> {got}')
    if wrong:
        res.bad(f'C05/compare/{mode}',
                f'a={a!r} ({ka}) b={b!r} ({kb}); SI a={float(sa)!r} b={float(sb)!r}; '
                f'expected {"a<b" if mode == "far" and sa < sb else ("a>b" if mode == "far" else "a==b")}; '
                f'wrong: {wrong}')
    return res


@st.composite
def s_compare(draw):
    ka = draw(st.sampled_from(U.KINDS))
    kb = draw(st.sampled_from(_related(ka))) if draw(st.integers(0, 3)) == 0 else ka
    units = list(U.UNITS[ka])
    ua = draw(st.sampled_from(units))
    ub = draw(st.sampled_from(units))
    mode = draw(st.sampled_from(['far', 'far', 'same']))
    constrained = [k for k in (ka, kb) if k in U.SIGN]
    if 'Angle' in constrained and len(constrained) == 1 or constrained == ['Angle', 'Angle']:
        vkind = 'Angle'
    elif constrained:
        vkind = constrained[0]
    else:
        vkind = ka
    va = draw(s_value(vkind, wide=True))
    case = {'kind_a': ka, 'kind_b': kb, 'unit_a': ua, 'unit_b': ub, 'value_a': va, 'mode': mode}
    if mode == 'same':
        if ub == ua:
            ub = draw(st.sampled_from([u for u in units if u != ua]))
            case['unit_b'] = ub
        case['chain'] = draw(st.lists(st.sampled_from(units), min_size=0, max_size=2))
        if va == 0 and U.SIGN.get(kb) == 'pos':
            case['value_a'] = 1.0
    else:
        how = draw(st.sampled_from(['gap', 'gap', 'gap', 'independent', 'zero']))
        base = U.convert(ka, va, ua, ub)
        if how == 'gap' and va != 0:
            g = draw(st.builds(lambda m, e: m * 10.0 ** e, st.floats(1, 10, exclude_max=True),
                               st.integers(-9, 0)))
            sgn = draw(st.sampled_from([1, -1]))
            f = 1 + sgn * g
            if f <= 0 and (U.SIGN.get(kb) or U.SIGN.get(ka)):
                f = 1 + g
            vb = base * f
        elif how == 'zero' and not (U.SIGN.get(kb) == 'pos' or U.SIGN.get(ka) == 'pos'):
            if draw(st.booleans()):
                vb = 0.0
            else:
                vb = base
                case['value_a'] = 0.0
        else:
            vb = draw(s_value(vkind, wide=True))
        if vb == 0 and (U.SIGN.get(kb) == 'pos'):
            vb = 1.0
        if vb < 0 and U.SIGN.get(kb):
            vb = -vb
        case['value_b'] = vb
    return case


def check_sequence(case) -> Result:
    """a chain of conversions (copy and in place) over a growing pool of objects derived from one quantity: every
    object keeps the SI magnitude of the original, a copying conversion never touches its receiver nor any other
    object, an in-place one returns the receiver and touches nothing else"""
    res = Result()
    kind, v, u = case['kind'], case['value'], case['unit']
    cls = U.cls(kind)
    units = list(U.UNITS[kind])
    si0 = float(U.si_exact(kind, v, u))
    pool = [cls(v, u)]
    state = [(v, u)]                    # expected (value, unit) of every pool object
    n_inplace = 0
    for n, step in enumerate(case['steps']):
        ix = step.get('obj', 0) % len(pool)
        obj = pool[ix]
        target = units[step['unit_ix'] % len(units)]
        r = obj.to(target, inplace=step['inplace'])
        tol = (n + 2) * CONV_ULP
        if step['inplace']:
            n_inplace += 1
            if r is not obj:
                res.bad(f'C05/sequence/{kind}/inplace-not-self', f'{case}: step {n} did not return the receiver')
                break
            state[ix] = (obj.value, obj.unit)
        else:
            if not any(r is p for p in pool):
                pool.append(r)
                state.append((r.value, r.unit))
        if r.unit != target or type(r) is not cls:
            res.bad(f'C05/sequence/{kind}/label', f'{case}: step {n} -> {r!r}')
            break
        # every object of the pool: unchanged unless it was the in-place receiver, and always the original magnitude
        bad = False
        for k, p in enumerate(pool):
            if (p.value, p.unit) != state[k]:
                res.bad(f'C05/sequence/{kind}/bystander-changed',
                        f'{case}: step {n} ({"in place" if step["inplace"] else "copy"} on object {ix} to {target}) changed '
                        f'object {k} from {state[k]} to {(p.value, p.unit)}')
                bad = True
                break
            got = float(U.si_exact(kind, p.value, p.unit))
            if U.ulps(got, si0) > tol:
                res.bad(f'C05/sequence/{kind}/magnitude-drifts',
                        f'{case}: after step {n} ({"in place" if step["inplace"] else "copy"} on object {ix} to {target}) '
                        f'object {k} is {p!r} = {got!r} SI, the original magnitude is {si0!r} SI')
                bad = True
                break
        if bad:
            break
    res.nontrivial = v != 0 and len(case['steps']) >= 3 and n_inplace >= 1
    res.classes = (f'kind:{kind}', f'steps:{min(len(case["steps"]), 6)}', f'pool:{min(len(pool), 5)}')
    return res


@st.composite
def s_sequence(draw):
    kind = draw(st.sampled_from(U.KINDS))
    return {'kind': kind, 'value': draw(s_value(kind)), 'unit': draw(st.sampled_from(list(U.UNITS[kind]))),
            'steps': draw(st.lists(st.fixed_dictionaries({'unit_ix': st.integers(0, 16), 'inplace': st.booleans(),
                                                          'obj': st.integers(0, 6)}), min_size=2, max_size=8))}


def parts(tier):
    seq = Part('sequences', check_sequence, strategy=s_sequence(), examples=1500 if tier == 'quick' else 30000,
               shards=2 if tier == 'quick' else 4)
    return _parts(tier) + [seq]


def _parts(tier):
    if tier == 'quick':
        return [Part('convert', check_convert, strategy=s_convert(), examples=150, shards=4),
                Part('compare', check_compare, strategy=s_compare(), examples=2500, shards=4)]
    return [Part('convert', check_convert, strategy=s_convert(), examples=2000, shards=8),
            Part('compare', check_compare, strategy=s_compare(), examples=40000, shards=8, fuzz_runs=150000, fuzz_shards=8)]


def selftest():
    # the oracle's own anchors, straight from the property statement
    assert abs(U.factor_f('AngularSpeed', 'rpm') - 2 * 3.141592653589793 / 60) < 1e-16
    assert U.factor('Force', 'kgf') == Fr('9.80665')
    assert U.factor('InertiaMoment', 'gcm^2') == Fr(1, 10 ** 7)
    assert U.n_unit_pairs() == 607
