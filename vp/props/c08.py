"""C08 — DC motor torque and current follow the documented characteristic."""
from __future__ import annotations

import math

from hypothesis import strategies as st

from vp.runner import Part, Result
from vp.oracle import units_si as U
from vp.oracle import motor as M

ID = 'C08'
RULE = ('Hypothesis draws motor constants in any of the 17 torque x 9 speed x 3 current units (or no current '
        'data), a speed of either sign up to 3x the no-load speed in any unit, and a duty cycle from a mixture: '
        'uniform [-1,1]; exact 0, +-1; +-i0/imax computed in SI floats / by the library\'s own Current/Current / '
        'in mixed units, and their +-1..4 ulp neighbours. The motor is driven through its public attributes '
        '(angular_speed, pwm, compute_torque, compute_electric_current) and compared with the piecewise law '
        'typed from the statement; derived checks: anchors at D=1, continuity across the dead-zone boundary, '
        'exact sign reversal, no exception for any in-domain input; in a third of the cases the current law is also applied '
        'to a driving torque set directly after the motor was used at another operating point. in-simulation: recorded '
        'motor torque and current of controlled simulations vs the law at the recorded speed and duty cycle. Non-trivial = |D| within 4 ulp of the '
        'dead-zone boundary, or |w| beyond the no-load speed, or D < 0; distinct = canonical JSON.')
ASSUMPTIONS = [
    'for a motor with zero no-load current, non-zero duty cycles are kept >= 1e-9 in magnitude',
    'tolerance 1e-9 * Tmax * (1 + |w/(D w0)|) (resp. imax); both laws are continuous so either branch is '
    'accepted within rounding of the boundary',
]


def _motor(case):
    import gearpy.mechanical_objects as mo
    kw = {}
    if case.get('i0') is not None:
        kw = dict(no_load_electric_current=U.cls('Current')(*case['i0']),
                  maximum_electric_current=U.cls('Current')(*case['imax']))
    m = mo.DCMotor(name='motor', inertia_moment=U.cls('InertiaMoment')(1, 'kgm^2'),
                   no_load_speed=U.cls('AngularSpeed')(*case['w0']),
                   maximum_torque=U.cls('Torque')(*case['tmax']), **kw)
    for which, unit in case.get('param_inplace') or []:
        # the user re-expresses a motor parameter in place after construction (same physical quantity)
        getattr(m, which).to(unit, inplace=True)
    return m


def _eval(m, w, D, with_current):
    m.angular_speed = U.cls('AngularSpeed')(*w)
    m.pwm = D
    m.compute_torque()
    t = m.driving_torque
    T = U.si('Torque', t.value, t.unit)
    I = None
    if with_current:
        m.compute_electric_current()
        c = m.electric_current
        I = U.si('Current', c.value, c.unit)
    return T, I


def check(case) -> Result:
    res = Result()
    try:
        m = _motor(case)
    except ValueError:
        return Result(classes=('invalid-motor',))
    Tmax = U.si('Torque', *case['tmax'])
    w0 = U.si('AngularSpeed', *case['w0'])
    has_i = case.get('i0') is not None
    i0 = U.si('Current', *case['i0']) if has_i else None
    imax = U.si('Current', *case['imax']) if has_i else None
    w = U.si('AngularSpeed', *case['w'])
    D = case['D']
    cls = []
    try:
        T, I = _eval(m, case['w'], D, has_i)
    except Exception as e:  # noqa
        res.bad(f'C08/exception/{type(e).__name__}', f'{case}: {type(e).__name__}: {e}')
        res.nontrivial = True
        return res
    sc = M.scale(w, D, w0) if has_i else 1.0 + abs(w / w0)
    Te = M.torque(w, D, Tmax, w0, i0, imax)
    if not abs(T - Te) <= 1e-9 * Tmax * sc:
        res.bad('C08/torque-law' + ('' if has_i else '/no-current-data'),
                f'{case}: torque {T!r} Nm, law gives {Te!r} Nm')
    if has_i:
        dz = i0 / imax
        Ie = M.current(w, D, Tmax, w0, i0, imax)
        if not abs(I - Ie) <= 1e-9 * imax * sc:
            res.bad('C08/current-law', f'{case}: current {I!r} A, law gives {Ie!r} A')
        if abs(D) <= dz * (1 - 1e-12) and T != 0:
            res.bad('C08/dead-zone-torque-not-zero', f'{case}: |D| <= i0/imax but torque {T!r}')
        near = abs(abs(D) - dz) <= 4 * math.ulp(dz) if dz > 0 else D == 0
        if near:
            cls.append('boundary')
        cls.append('dead-zone' if abs(D) <= dz else 'active')
    else:
        near = False
    # exact sign reversal (a motor without current data ignores D: its law is Tmax*(1 - w/w0) for every D)
    try:
        if not has_i:
            raise StopIteration
        T2, I2 = _eval(m, [-case['w'][0], case['w'][1]], -D, has_i)
        if not abs(T + T2) <= 1e-12 * Tmax * sc:
            res.bad('C08/reversal-torque', f'{case}: T(D,w)={T!r} but T(-D,-w)={T2!r}')
        if has_i and not abs(I + I2) <= 1e-12 * imax * sc:
            res.bad('C08/reversal-current', f'{case}: I(D,w)={I!r} but I(-D,-w)={I2!r}')
    except StopIteration:
        pass
    except Exception as e:  # noqa
        res.bad(f'C08/exception/{type(e).__name__}', f'{case} reversed: {type(e).__name__}: {e}')
    # anchors at D = 1
    try:
        Ta, Ia = _eval(m, [0.0, case['w'][1]], 1, has_i)
        Tb, Ib = _eval(m, list(case['w0']), 1, has_i)
        if not abs(Ta - Tmax) <= 1e-12 * Tmax or not abs(Tb) <= 1e-12 * Tmax:
            res.bad('C08/anchor-torque', f'{case}: T(1,0)={Ta!r} (Tmax {Tmax!r}), T(1,w0)={Tb!r}')
        if has_i and (not abs(Ia - imax) <= 1e-12 * imax or not abs(Ib - i0) <= 1e-12 * imax):
            res.bad('C08/anchor-current', f'{case}: I(1,0)={Ia!r} (imax {imax!r}), I(1,w0)={Ib!r} (i0 {i0!r})')
    except Exception as e:  # noqa
        res.bad(f'C08/exception/{type(e).__name__}', f'{case} anchors: {type(e).__name__}: {e}')
    # the current law applied to a driving torque set through the public attribute, after the motor was used at
    # another operating point (no stale intermediate may survive a change of duty cycle)
    if has_i and 'prior' in case and abs(D) > (i0 / imax) * (1 + 1e-9):
        try:
            _eval(m, case['prior']['w'], case['prior']['D'], True)
            m.pwm = D
            m.angular_speed = U.cls('AngularSpeed')(*case['w'])
            Tset = M.torque(w, D, Tmax, w0, i0, imax)
            tu = case['tmax'][1]
            m.driving_torque = U.cls('Torque')(Tset / U.factor_f('Torque', tu), tu)
            m.compute_electric_current()
            c = m.electric_current
            I3 = U.si('Current', c.value, c.unit)
            if not abs(I3 - Ie) <= 1e-9 * imax * sc:
                res.bad('C08/current-law/after-other-operating-point',
                        f'{case}: current {I3!r} A for a driving torque of {Tset!r} N m set directly at D={D!r}, law gives '
                        f'{Ie!r} A (the motor was evaluated at {case["prior"]} before)')
        except Exception as e:  # noqa
            res.bad(f'C08/exception/{type(e).__name__}', f'{case} after prior point: {type(e).__name__}: {e}')
        cls.append('prior-point')
    if abs(w) > w0:
        cls.append('beyond-no-load')
    if D < 0:
        cls.append('negative-D')
    if not has_i:
        cls.append('no-current-data')
    res.nontrivial = bool(near or abs(w) > w0 or D < 0)
    res.classes = tuple(cls)
    return res


def _q(kind, lo, hi):
    mag = st.builds(lambda m, e: m * 10.0 ** e, st.floats(1, 10, exclude_max=True), st.integers(lo, hi))
    return st.tuples(mag, st.sampled_from(list(U.UNITS[kind]))).map(
        lambda t: [t[0] / U.factor_f(kind, t[1]), t[1]])


def _nudge(x, k):
    for _ in range(abs(k)):
        x = math.nextafter(x, math.inf if k > 0 else -math.inf)
    return x


@st.composite
def s_case(draw):
    case = {'w0': draw(_q('AngularSpeed', 0, 4)), 'tmax': draw(_q('Torque', -4, 3))}
    w0 = U.si('AngularSpeed', *case['w0'])
    has_i = draw(st.integers(0, 5)) > 0
    dz = None
    if has_i:
        imax = draw(_q('Current', -2, 2))
        zero_i0 = draw(st.integers(0, 7)) == 0
        u0 = draw(st.sampled_from(list(U.UNITS['Current'])))
        if zero_i0:
            i0 = [draw(st.sampled_from([0, 0.0])), u0]
        else:
            f = draw(st.one_of(st.floats(0.001, 0.9), st.sampled_from([0.5, 0.25, 1 / 6, 0.1, 1 / 3])))
            i0 = [U.si('Current', *imax) * f / U.factor_f('Current', u0), u0]
        case['i0'], case['imax'] = i0, imax
        s0, s1 = U.si('Current', *i0), U.si('Current', *imax)
        if not s0 < s1:
            i0[0] = i0[0] * 0.5
            s0 = U.si('Current', *i0)
        how = draw(st.sampled_from(['si', 'lib', 'lib-rev-units']))
        if how == 'si':
            dz = s0 / s1
        elif how == 'lib':
            dz = U.cls('Current')(*i0) / U.cls('Current')(*imax)
        else:
            dz = U.cls('Current')(*i0).to(imax[1]).value / imax[0]
    else:
        case['i0'] = None
    mode = draw(st.sampled_from(['uniform', 'uniform', 'special', 'boundary', 'boundary', 'boundary']))
    if mode == 'boundary' and dz:
        D = _nudge(dz, draw(st.integers(-4, 4))) * draw(st.sampled_from([1, -1]))
    elif mode == 'special':
        D = draw(st.sampled_from([0, 0.0, 1, -1, 1.0, -1.0, 0.5, -0.5]))
    else:
        D = draw(st.floats(-1, 1))
    if has_i and case['i0'][0] == 0 and D != 0 and abs(D) < 1e-9:
        D = math.copysign(1e-9, D)
    D = max(-1, min(1, D))
    case['D'] = D
    wu = draw(st.sampled_from(list(U.UNITS['AngularSpeed'])))
    ws = w0 * draw(st.one_of(st.floats(-3, 3), st.sampled_from([0.0, 1.0, -1.0, 0.5])))
    case['w'] = [ws / U.factor_f('AngularSpeed', wu), wu]
    if draw(st.integers(0, 4)) == 0:
        kinds = {'maximum_torque': 'Torque', 'no_load_speed': 'AngularSpeed'}
        if has_i and mode != 'boundary':
            kinds.update(no_load_electric_current='Current', maximum_electric_current='Current')
        case['param_inplace'] = [[w_, draw(st.sampled_from(list(U.UNITS[kinds[w_]])))]
                                 for w_ in draw(st.lists(st.sampled_from(sorted(kinds)), min_size=1, max_size=2, unique=True))]
    if has_i and draw(st.integers(0, 2)) == 0:
        case['prior'] = {'D': draw(st.sampled_from([1, -1, 0.4, -0.7, 0.9, 0])),
                         'w': [w0 * draw(st.floats(-1, 1)), 'rad/s']}
    return case


def check_in_simulation(case) -> Result:
    """recorded motor torque and current at every instant vs the law at the recorded speed and duty cycle"""
    from vp import simprops as SP
    from vp import invariants as I
    res = Result()
    r = SP.simulate_checked(case, res, ID)
    if r is None:
        return res
    b, traces, err = r
    mdl = b.model
    n = 0
    varied = False
    for tr, _ in SP.segments(case, traces):
        if not I.complete(tr) or not I.finite_trace(tr):
            continue
        wm, pw, tq = tr.get(0, 'angular speed'), tr.get(0, 'pwm'), tr.get(0, 'driving torque')
        cur = tr.vars[0].get('electric current')
        for k in range(tr.n):
            sc = M.scale(wm[k], pw[k], mdl.w0) if mdl.i0 is not None else 1 + abs(wm[k] / mdl.w0)
            Te = M.torque(wm[k], pw[k], mdl.Tmax, mdl.w0, mdl.i0, mdl.imax)
            if not abs(tq[k] - Te) <= 1e-9 * mdl.Tmax * sc:
                res.bad('C08/in-simulation/torque', f'instant {k}: recorded motor torque {tq[k]!r}, law at recorded speed '
                        f'{wm[k]!r} and duty cycle {pw[k]!r} gives {Te!r}')
                break
            if cur is not None and len(cur) == tr.n:
                Ie = M.current(wm[k], pw[k], mdl.Tmax, mdl.w0, mdl.i0, mdl.imax)
                if not abs(cur[k] - Ie) <= 1e-9 * mdl.imax * sc:
                    res.bad('C08/in-simulation/current', f'instant {k}: recorded current {cur[k]!r} A, law at recorded speed '
                            f'{wm[k]!r} and duty cycle {pw[k]!r} gives {Ie!r} A')
                    break
            n += 1
        varied = varied or bool(len(pw) and (max(pw) != min(pw)))
    res.count = max(n, 1)
    res.nontrivial = varied
    res.classes += ('duty-varies' if varied else 'duty-constant',)
    return res


def parts(tier):
    from vp import gen as G
    sim = Part('in-simulation', check_in_simulation,
               strategy=G.s_case_controlled(max_len=4, max_steps=30, currents=True),
               examples=100 if tier == 'quick' else 1500, shards=4 if tier == 'quick' else 4)
    if tier == 'quick':
        return [Part('motor-law', check, strategy=s_case(), examples=5000, shards=4), sim]
    return [Part('motor-law', check, strategy=s_case(), examples=125000, shards=12), sim]


def selftest():
    assert M.torque(0.0, 1, 2.0, 100.0, 0.1, 3.0) == 2.0
    assert abs(M.torque(100.0, 1, 2.0, 100.0, 0.1, 3.0)) < 1e-15
    assert abs(M.current(0.0, 1, 2.0, 100.0, 0.1, 3.0) - 3.0) < 1e-15
    assert abs(M.current(100.0, 1, 2.0, 100.0, 0.1, 3.0) - 0.1) < 1e-15
    assert M.torque(5.0, 0.01, 2.0, 100.0, 0.1, 3.0) == 0.0
    assert abs(M.torque(-5.0, -0.7, 2.0, 100.0, 0.1, 3.0) + M.torque(5.0, 0.7, 2.0, 100.0, 0.1, 3.0)) < 1e-15
