"""C18 — snapshot and export report the recorded history faithfully."""
from __future__ import annotations

import math
import os
import shutil
import tempfile

import numpy as np
from hypothesis import strategies as st

from vp.runner import Part, Result
from vp.oracle import units_si as U
from vp import gen as G
from vp import sim as S
from vp import invariants as I

ID = 'C18'
VARS = S.ALL_VARS
UNIT_ARG = {'angular position': 'angular_position_unit', 'angular speed': 'angular_speed_unit',
            'angular acceleration': 'angular_acceleration_unit', 'torque': 'torque_unit',
            'driving torque': 'driving_torque_unit', 'load torque': 'load_torque_unit',
            'tangential force': 'force_unit', 'bending stress': 'stress_unit', 'contact stress': 'stress_unit',
            'electric current': 'current_unit'}
ARG_KIND = {'angular_position_unit': 'AngularPosition', 'angular_speed_unit': 'AngularSpeed',
            'angular_acceleration_unit': 'AngularAcceleration', 'torque_unit': 'Torque',
            'driving_torque_unit': 'Torque', 'load_torque_unit': 'Torque', 'force_unit': 'Force',
            'stress_unit': 'Stress', 'current_unit': 'Current'}
RULE = ('snapshots (Hypothesis): simulated valid models (also stopped and continued runs, and run / reset / rerun with another '
        'step but the same number of instants, with a snapshot taken between the runs), 3..6 snapshots each: target '
        'time at a recorded instant (first, last, any) or strictly between two instants, written in any of the 4 time '
        'units; requested variables = None or a random non-empty subset of the variables the powertrain records; all '
        '9 output units drawn at random; print_data on (the default, output discarded) or off - the returned table must be the same. subsets (exhaustive in the thorough tier, every 10th in quick): EVERY '
        'non-empty subset of the 11 variables on a fixed model that records all of them. Oracle: rows = element names '
        'in chain order; columns = exactly the requested variables, labelled with the requested unit; each cell = '
        'the recorded sample converted with the independent SI table at an instant, the linear interpolation of the '
        'two neighbouring samples between instants, NaN only where the element does not record that variable. '
        'export: one CSV per element, one row per instant, the time column and every recorded variable converted to '
        'the requested units, compared after re-reading the file (round-trip float parser). Non-trivial = the subset '
        'is neither all variables nor a single kinematic one, or the target lies strictly between instants; '
        'distinct = canonical JSON.')
ASSUMPTIONS = ['column order is not specified by the statement (compared as a set)',
               'requested variables are drawn from those the powertrain records (others are refused by design)']


def _expected_cell(samples_si, t_si, times, factor):
    """linear interpolation of the SI samples at t (s), expressed in the output unit"""
    n = len(times)
    j = int(np.searchsorted(times, t_si, side='right')) - 1
    j = max(0, min(n - 2, j))
    t0, t1 = times[j], times[j + 1]
    w = (t_si - t0) / (t1 - t0)
    w = min(1.0, max(0.0, w))
    v = samples_si[j] + (samples_si[j + 1] - samples_si[j]) * w
    return v / factor, max(abs(samples_si[j]), abs(samples_si[j + 1])) / factor


def check_snapshot_on(b, tr, snap, res, label=''):
    pt = b.powertrain
    names = [e.name for e in pt.elements]
    times = tr.t
    # target time
    if snap['at'][0] == 'instant':
        k = int(round(snap['at'][1] * (tr.n - 1)))
        t_si = float(times[k])
        between = False
    else:
        k = min(tr.n - 2, int(snap['at'][1] * (tr.n - 1)))
        t_si = float(times[k] + (times[k + 1] - times[k]) * snap['at'][2])
        between = True
    if not between:
        # the recorded instant itself: same unit -> the identical number (same-unit comparisons are exact by design),
        # other unit -> the correctly rounded conversion
        x = pt.time[k]
        target = [x.value, x.unit] if x.unit == snap['unit'] else \
            [float(U.convert_exact('Time', x.value, x.unit, snap['unit'])), snap['unit']]
    else:
        target = G.qty('Time', t_si, snap['unit'])
    t_back = U.si('Time', *target)
    recorded = set()
    for d in tr.lens:
        recorded |= set(d)
    variables = snap.get('variables')
    if variables is not None:
        variables = [v for v in variables if v in recorded]
        if not variables:
            return None
    units = snap['units']
    kw = {a: units[a] for a in ARG_KIND}
    try:
        import contextlib
        import io
        with contextlib.redirect_stdout(io.StringIO()):
            df = pt.snapshot(target_time=U.cls('Time')(*target), variables=list(variables) if variables else None,
                             print_data=bool(snap.get('print', False)), **kw)
    except Exception as e:  # noqa
        where = 'last-instant' if (not between and k == tr.n - 1) else ('first-instant' if (not between and k == 0) else 'inside')
        res.bad(f'C18/snapshot-raises/{type(e).__name__}/{where}',
                f'{label}snapshot at {target} (instant {k} of {tr.n}, recorded range {times[0]!r}..{times[-1]!r} s), '
                f'variables {variables}: {type(e).__name__}: {e}')
        return between
    req = list(variables) if variables else [v for v in VARS if v in recorded]
    exp_cols = {(f'{v} ({units[UNIT_ARG[v]]})' if v != 'pwm' else 'pwm'): v for v in req}
    got_cols = list(df.columns)
    if set(got_cols) != set(exp_cols):
        extra = sorted(set(got_cols) - set(exp_cols))
        missing = sorted(set(exp_cols) - set(got_cols))
        res.bad('C18/snapshot/columns' + ('/extra' if extra else '') + ('/missing' if missing else ''),
                f'{label}requested {variables}: columns {got_cols}; unexpected {extra}, missing {missing}')
        return between
    # rows: chain order; an element that records none of the requested variables may be absent
    need = [nm for i, nm in enumerate(names) if any(v in tr.vars[i] for v in req)]
    rows = list(df.index)
    if [r for r in names if r in rows] != rows or any(nm not in rows for nm in need):
        res.bad('C18/snapshot/rows', f'{label}rows {rows}, elements {names}, elements recording a requested variable {need}')
        return between
    for col, v in exp_cols.items():
        for i, name in enumerate(names):
            if name not in rows:
                continue
            cell = df.loc[name, col]
            cell = float(cell) if cell is not None and not (isinstance(cell, float) and math.isnan(cell)) else math.nan
            has = v in tr.vars[i] and tr.vars[i][v] is not None and len(tr.vars[i][v]) == tr.n
            if not has:
                if not math.isnan(cell):
                    res.bad(f'C18/snapshot/value-where-not-recorded/{v.replace(" ", "-")}',
                            f'{label}{name} does not record {v!r} but the snapshot shows {cell!r}')
                continue
            factor = 1.0 if v == 'pwm' else U.factor_f(S.VAR_KIND[v], units[UNIT_ARG[v]])
            exp, sc = _expected_cell(tr.vars[i][v], t_back, times, factor)
            if math.isnan(cell):
                res.bad(f'C18/snapshot/nan-for-recorded/{v.replace(" ", "-")}',
                        f'{label}{name} records {v!r} (requested {variables}) but the snapshot cell is NaN; expected {exp!r}')
            elif not abs(cell - exp) <= 1e-9 * max(abs(exp), sc) + 1e-300:
                res.bad(f'C18/snapshot/value/{v.replace(" ", "-")}',
                        f'{label}{name} {col} at {target}: snapshot {cell!r}, recorded history gives {exp!r}')
    return between


def check_export_on(b, tr, units, time_unit, res):
    import pandas as pd
    pt = b.powertrain
    d = tempfile.mkdtemp(prefix='c18_')
    try:
        kw = {a: units[a] for a in ARG_KIND}
        try:
            pt.export_time_variables(folder_path=d, time_unit=time_unit, **kw)
        except Exception as e:  # noqa
            res.bad(f'C18/export-raises/{type(e).__name__}', f'export_time_variables: {type(e).__name__}: {e}')
            return
        for i, el in enumerate(pt.elements):
            path = os.path.join(d, el.name + '.csv')
            if not os.path.exists(path):
                res.bad('C18/export/file-missing', f'no file for element {el.name!r}: {os.listdir(d)}')
                continue
            df = pd.read_csv(path, float_precision='round_trip')
            if len(df) != tr.n:
                res.bad('C18/export/row-count', f'{el.name}: {len(df)} rows for {tr.n} instants')
                continue
            exp_cols = {f'time ({time_unit})': None}
            for v in tr.vars[i]:
                exp_cols[f'{v} ({units[UNIT_ARG[v]]})' if v != 'pwm' else 'pwm'] = v
            if set(df.columns) != set(exp_cols):
                res.bad('C18/export/columns', f'{el.name}: columns {list(df.columns)}, expected {list(exp_cols)}')
                continue
            tcol = df[f'time ({time_unit})'].to_numpy(dtype=float) * U.factor_f('Time', time_unit)
            if not np.all(np.abs(tcol - tr.t) <= 1e-12 * np.maximum(np.abs(tr.t), 1e-300) + 1e-300):
                res.bad('C18/export/time-column', f'{el.name}: time column {tcol[:4]} vs recorded {tr.t[:4]}')
            for col, v in exp_cols.items():
                if v is None:
                    continue
                factor = 1.0 if v == 'pwm' else U.factor_f(S.VAR_KIND[v], units[UNIT_ARG[v]])
                got = df[col].to_numpy(dtype=float) * factor
                ref = tr.vars[i][v]
                if not np.all(np.abs(got - ref) <= 1e-12 * np.maximum(np.abs(ref), np.abs(got)) + 1e-300):
                    k = int(np.nonzero(~(np.abs(got - ref) <= 1e-12 * np.maximum(np.abs(ref), np.abs(got)) + 1e-300))[0][0])
                    res.bad(f'C18/export/value/{v.replace(" ", "-")}',
                            f'{el.name} {col} row {k}: file {df[col][k]!r}, recorded {ref[k]!r} SI')
    finally:
        shutil.rmtree(d, ignore_errors=True)


def check(case) -> Result:
    res = Result()
    base = {k: v for k, v in case.items() if k not in ('snaps', 'export')}
    try:
        b = S.build(base)
    except Exception as e:  # noqa
        res.classes += (f'build-rejected:{type(e).__name__}',)
        res.build_error = e
        return res
    tr = None
    n_runs = sum(1 for op in base['history'] if op['op'] == 'run')
    seen_runs = 0
    for op in base['history']:
        try:
            S.run_op(b, op)
        except Exception as e:  # noqa
            res.classes += ('run-raised',)
            res.run_error = e
            return res
        if op['op'] == 'run':
            seen_runs += 1
            tr = S.Trace(b)
            if seen_runs < n_runs and case.get('snap_between_runs') and tr.n >= 2 and I.complete(tr) and I.finite_trace(tr):
                # a snapshot taken in the middle of the history (before a continuation or a reset) ...
                check_snapshot_on(b, tr, case['snaps'][0], res, label=f'after run {seen_runs}: ')
                if res.violations:
                    return res
    if tr is None:
        return res
    if tr.n < 2 or not I.complete(tr) or not I.finite_trace(tr):
        res.classes += ('incomplete-or-nonfinite-trace',)
        return res
    nontriv = False
    for snap in case['snaps']:
        between = check_snapshot_on(b, tr, snap, res)
        v = snap.get('variables')
        nontriv = nontriv or bool(between) or bool(v and 1 < len(v) < len(VARS)) or bool(v and len(v) == 1 and v[0] not in
                                                                                           VARS[:3])
        if res.violations:
            break
    if case.get('export') and not res.violations:
        check_export_on(b, tr, case['export']['units'], case['export']['time_unit'], res)
    res.nontrivial = nontriv
    res.classes += (f'snaps:{len(case["snaps"])}', 'export' if case.get('export') else 'no-export')
    return res


# fixed model recording all 11 variables
def _rich_case():
    J = [1e-4, 'kgm^2']
    full = {'module': [1, 'mm'], 'face_width': [10, 'mm'], 'E': [200, 'GPa']}
    return {
        'motor': {'J': J, 'w0': [2000, 'rpm'], 'tmax': [1, 'Nm'], 'i0': [0.2, 'A'], 'imax': [5, 'A'], 'pwm0': 1},
        'chain': [dict({'type': 'spur', 'n_teeth': 12, 'J': J, 'link': {'kind': 'joint'}}, **full),
                  dict({'type': 'spur', 'n_teeth': 30, 'J': J, 'link': {'kind': 'gear', 'eta': 0.9}}, **full),
                  {'type': 'flywheel', 'J': J, 'link': {'kind': 'joint'}},
                  {'type': 'spur', 'n_teeth': 15, 'J': J, 'link': {'kind': 'joint'}}],
        'load': {'c0': 0.05, 'cw': 0.001, 'csin': 0.0, 'kpos': 1.0, 'ct': 0.0, 'period': 1.0, 'unit': 'Nm'},
        'init': {'pos': [0.0, 'rad'], 'speed': [0.0, 'rad/s']},
        'history': [{'op': 'run', 'dt': [0.01, 'sec'], 'T': [0.06, 'sec']}],
    }


DEFAULT_UNITS = {'angular_position_unit': 'deg', 'angular_speed_unit': 'rpm', 'angular_acceleration_unit': 'rad/s^2',
                 'torque_unit': 'mNm', 'driving_torque_unit': 'Nm', 'load_torque_unit': 'kgfcm', 'force_unit': 'N',
                 'stress_unit': 'MPa', 'current_unit': 'mA'}


def enum_subsets_all():
    for mask in range(1, 2 ** len(VARS)):
        vs = [v for i, v in enumerate(VARS) if mask >> i & 1]
        yield dict(_rich_case(), snaps=[{'at': ['between', 0.4, 0.3], 'unit': 'ms', 'variables': vs,
                                         'units': DEFAULT_UNITS}])


def enum_subsets_quick():
    for n, c in enumerate(enum_subsets_all()):
        if n % 10 == 0 or len(c['snaps'][0]['variables']) <= 2:
            yield c


@st.composite
def s_units(draw):
    return {a: draw(G.s_unit(k)) for a, k in ARG_KIND.items()}


@st.composite
def s_case(draw, max_len=5, max_steps=25):
    case = draw(G.s_case_controlled(max_len=max_len, max_steps=max_steps, histories=('run', 'run+continue')))
    if draw(st.integers(0, 3)) == 0:
        case['stop'] = {'sensor': 'tachometer', 'target': 0, 'op': 'gt',
                        'threshold': G.qty('AngularSpeed', draw(st.floats(1, 500)), 'rad/s')}
        case['history'][0]['stop'] = True
    snaps = []
    for _ in range(draw(st.integers(3, 6))):
        mode = draw(st.sampled_from(['instant', 'instant', 'between', 'between', 'last', 'first']))
        if mode == 'between':
            at = ['between', draw(st.floats(0, 0.999)), draw(st.floats(0.05, 0.95))]
        else:
            at = ['instant', {'last': 1.0, 'first': 0.0}.get(mode, draw(st.floats(0, 1)))]
        vs = None
        if draw(st.integers(0, 3)) > 0:
            vs = draw(st.lists(st.sampled_from(VARS), min_size=1, max_size=6, unique=True))
        snaps.append({'at': at, 'unit': draw(G.s_unit('Time')), 'variables': vs, 'units': draw(s_units()),
                      'print': draw(st.booleans())})
    # the end points in every time unit (cheap single-variable snapshots): the range check and the interpolation must
    # agree on what 'inside the recorded range' means
    for u in U.UNITS['Time']:
        for at in (1.0, 0.0):
            snaps.append({'at': ['instant', at], 'unit': u, 'variables': ['angular speed'], 'units': DEFAULT_UNITS})
    case['snaps'] = snaps
    case['snap_between_runs'] = draw(st.booleans())
    if draw(st.integers(0, 3)) == 0 and len(case['history']) == 1:
        # run, reset, rerun with another step but the SAME number of instants (stale caches keyed on the length show here)
        r1 = case['history'][0]
        f = draw(st.sampled_from([0.5, 2.0, 0.25, 3.0]))
        r2 = dict(r1, dt=[r1['dt'][0] * f, r1['dt'][1]], T=[r1['T'][0] * f, r1['T'][1]], stop=False)
        case['history'] = [r1, {'op': 'reset', 'reinit': True}, r2]
        case['snap_between_runs'] = True
    if draw(st.booleans()):
        case['export'] = {'units': draw(s_units()), 'time_unit': draw(G.s_unit('Time'))}
    return case


def parts(tier):
    if tier == 'quick':
        return [Part('subsets', check, enumerate=enum_subsets_quick, exhaustive=False, chunk=30),
                Part('snapshots', check, strategy=s_case(), examples=80, shards=4)]
    return [Part('subsets', check, enumerate=enum_subsets_all, exhaustive=True, chunk=64),
            Part('snapshots', check, strategy=s_case(8, 80), examples=500, shards=16)]
