"""C07 — results do not depend on the units inputs are expressed in."""
from __future__ import annotations

import copy
from fractions import Fraction as Fr

import numpy as np
from hypothesis import strategies as st

from vp.runner import Part, Result
from vp.oracle import units_si as U
from vp import gen as G
from vp import model as M
from vp import sim as S
from vp import invariants as I
from vp.props import c12 as C12

ID = 'C07'
RULE = ('A valid model (chains with worm / helical matings, optional data, duty-cycle windows, optionally a '
        'ReachAngularPosition rule and a stop condition; histories run | run+continue) is simulated twice: as '
        'generated, and with EVERY input quantity re-expressed in another unit of its kind drawn by Hypothesis - all '
        'component parameters, pressure and helix angles, initial conditions, dt and T (independently), stop '
        'threshold, rule targets / braking angle / timer start and duration, the unit of the load\'s returned torque - '
        'using the exact rational factor (magnitudes agree to 0.5 ulp). Oracle (metamorphic): same outcome class at '
        'construction, declaration and simulation (success, or the same exception type); same number of instants '
        '(stop instant); time axis and every recorded series (positions .. stresses, currents, duty cycle) equal in SI '
        'within 1e-7 relative of the series scale; in half of the cases also a snapshot at the same instant strictly inside the recorded range (target written in seconds on one side, in another time unit on the other; cells equal within 1e-6 of the series scale, same success / failure). Before a series difference is reported the case as generated is simulated once more with the no-load speed scaled by 1 + 1e-13: if that same-unit perturbation already moves a series beyond the tolerance the trajectory is ill-conditioned (amplification above 1e6) and the case is counted, not judged. Cases whose discrete decisions (timer windows vs grid, stop '
        'comparison, lock decisions, rule window) lie within 1e-6 of their threshold are counted and only compared '
        'for outcome class. ties: timer windows ending EXACTLY on a simulated instant (decimal step, window of 2^j steps), '
        'compared without the near-threshold discard. constructors: every component constructor argument (incl. the four worm pressure angles '
        'and helix angles near their limits) in every unit: accept / reject must not depend on the unit. '
        'Non-trivial = at least 5 input quantities changed unit, including dt or T and at least one angle; distinct = '
        'canonical JSON.')
ASSUMPTIONS = ['mated gears carry identical module / helix numbers in the base case (equality of two inputs that differ '
               'by rounding is itself a near-threshold decision)', 'position-dependent loads are kept soft so that the '
               'discrete map is not chaotic']

QUANTITY_FIELDS = {
    'motor': {'J': 'InertiaMoment', 'w0': 'AngularSpeed', 'tmax': 'Torque', 'i0': 'Current', 'imax': 'Current'},
    'element': {'J': 'InertiaMoment', 'module': 'Length', 'face_width': 'Length', 'E': 'Stress', 'helix': 'Angle',
                'pressure': 'Angle', 'ref_diameter': 'Length'},
    'init': {'pos': 'AngularPosition', 'speed': 'AngularSpeed'},
    'rule': {'start': 'Time', 'duration': 'TimeInterval', 'target': 'AngularPosition', 'braking': 'Angle',
             'limit': 'Current'},
    'run': {'dt': 'TimeInterval', 'T': 'TimeInterval'},
}
STOP_KIND = {'encoder': 'AngularPosition', 'tachometer': 'AngularSpeed', 'amperometer': 'Current'}


def _conv(kind, pair, unit):
    if pair[1] == unit:
        return list(pair)
    return [float(U.convert_exact(kind, pair[0], pair[1], unit)), unit]


def reexpress(case, picks):
    """partner case: every input quantity in the unit selected by the next pick"""
    c = copy.deepcopy(case)
    it = iter(picks)
    changed = {'n': 0, 'time': False, 'angle': False, 'kinds': set()}

    def nxt(kind, pair):
        units = list(U.UNITS[kind])
        try:
            u = units[next(it) % len(units)]
        except StopIteration:
            u = pair[1]
        if u != pair[1]:
            changed['n'] += 1
            changed['kinds'].add(kind)
            if kind in ('TimeInterval',):
                changed['time'] = True
            if kind in ('Angle', 'AngularPosition'):
                changed['angle'] = True
        return _conv(kind, pair, u)

    for f, k in QUANTITY_FIELDS['motor'].items():
        if c['motor'].get(f) is not None:
            c['motor'][f] = nxt(k, c['motor'][f])
    for el in c['chain']:
        for f, k in QUANTITY_FIELDS['element'].items():
            if el.get(f) is not None:
                el[f] = nxt(k, el[f])
    for f, k in QUANTITY_FIELDS['init'].items():
        c['init'][f] = nxt(k, c['init'][f])
    tu = list(U.UNITS['Torque'])
    try:
        c['load']['unit'] = tu[next(it) % len(tu)]
    except StopIteration:
        pass
    for r in c.get('control') or []:
        for f, k in QUANTITY_FIELDS['rule'].items():
            if f in r:
                r[f] = nxt(k, r[f])
    if c.get('stop'):
        c['stop']['threshold'] = nxt(STOP_KIND[c['stop']['sensor']], c['stop']['threshold'])
    for op in c['history']:
        if op['op'] == 'run':
            for f, k in QUANTITY_FIELDS['run'].items():
                op[f] = nxt(k, op[f])
    return c, changed


def _outcome(case):
    try:
        b = S.build(case)
    except Exception as e:  # noqa
        return ('build', type(e).__name__, str(e)), None, None
    traces = []
    for j, op in enumerate(case['history']):
        try:
            S.run_op(b, op)
        except Exception as e:  # noqa
            return (f'run{j}', type(e).__name__, str(e)), b, traces
        traces.append(S.Trace(b))
    return ('ok', None, None), b, traces


def _margins(case, mdl, tr):
    """smallest relative margin of the discrete decisions taken by the base execution"""
    margin = 1.0
    t = tr.t
    runs = [op for op in case['history'] if op['op'] == 'run']
    dt_si = min(U.si('TimeInterval', *r['dt']) for r in runs)
    # timers against the recorded instants
    for r in case.get('control') or []:
        if r['rule'] == 'constant':
            a = U.si('Time', *r['start'])
            e = a + U.si('TimeInterval', *r['duration'])
            for edge in (a, e):
                if len(t):
                    margin = min(margin, float(np.min(np.abs(t - edge))) / dt_si)
        elif r['rule'] == 'reach':
            th = tr.get(r['enc'], 'angular position')
            tgt, brk = U.si('AngularPosition', *r['target']), U.si('Angle', *r['braking'])
            Tl = tr.get(0, 'load torque')
            start = tgt - brk + (Tl / mdl.Tmax) * brk / mdl.E
            margin = min(margin, float(np.min(np.abs(th - start))) / brk)
    if case.get('stop') and any(op.get('stop') for op in runs):
        s = case['stop']
        var = {'encoder': 'angular position', 'tachometer': 'angular speed', 'amperometer': 'electric current'}[s['sensor']]
        tgt = 0 if s['sensor'] == 'amperometer' else s['target']
        if var in tr.vars[tgt]:
            series = tr.get(tgt, var)
            thr = U.si(STOP_KIND[s['sensor']], *s['threshold'])
            scale = max(float(np.max(np.abs(series))), abs(thr), 1e-300)
            margin = min(margin, float(np.min(np.abs(series[1:] - thr))) / scale if len(series) > 1 else 1.0)
    if mdl.self_locking or mdl.locking_ambiguous:
        margin = min(margin, C12._near_threshold({'control': []}, mdl, tr, dt_si))
        w_init = U.si('AngularSpeed', *case['init']['speed'])
        if w_init != 0:                  # the lock decision of instant 0 is taken on the sign of the initial speed
            margin = min(margin, abs(mdl.cum_ratio(0) * w_init) / mdl.w0)
    if mdl.i0 is not None:
        pwm = tr.get(0, 'pwm')
        dz = mdl.i0 / mdl.imax
        if dz > 0:
            margin = min(margin, float(np.min(np.abs(np.abs(pwm) - dz))) / dz)
    return margin


def _natural_scale(mdl, key, case):
    """typical magnitude (SI) of a recorded variable of element i in this model"""
    if key == 't':
        return 1.0 / mdl.k
    i, var = key.split(':', 1)
    r = mdl.cum_ratio(int(i))                      # speed of element i / speed of the last element
    horizon = G.horizon(case) or 1.0 / mdl.k
    speed = mdl.noload_out * r
    torque = mdl.Tmax / max(r / mdl.cum_ratio(0), 1e-300)       # stall torque referred to element i (no losses)
    base = {'angular position': speed * horizon, 'angular speed': speed, 'angular acceleration': speed * mdl.k,
            'torque': torque, 'driving torque': torque, 'load torque': torque, 'pwm': 1.0,
            'electric current': mdl.imax or 1.0}
    if var in base:
        return base[var]
    # tooth force and stresses at the stall torque of this element (orders of magnitude are enough for a floor)
    sp = mdl.elements[int(i)]
    if sp.get('module') is not None and sp.get('n_teeth'):
        d = sp['n_teeth'] * U.si('Length', *sp['module'])
    elif sp.get('ref_diameter') is not None:
        d = U.si('Length', *sp['ref_diameter'])
    else:
        return 0.0
    force = torque / (d / 2)
    if var == 'tangential force':
        return force
    b_ = U.si('Length', *sp['face_width']) if sp.get('face_width') is not None else d
    m_ = U.si('Length', *sp['module']) if sp.get('module') is not None else d
    if var == 'bending stress':
        return force / (m_ * b_ * 0.3)
    E = U.si('Stress', *sp['E']) if sp.get('E') is not None else 2e11
    return 0.26 * (4 * force / (b_ * 0.32) * (2 / d) * E / 2) ** 0.5


def _ill_conditioned(base, a, mdl):
    """conditioning test made before a series difference is reported: the case AS GENERATED (same units) is simulated
    once more with the no-load speed of the motor scaled by 1 + 1e-13; if that moves any recorded series by more than
    the comparison tolerance (an amplification above 1e6: a bang-bang position loop with an hour-long step, say), a
    difference between the two unit systems cannot be told from amplified rounding and the case is not judged"""
    import copy
    p = copy.deepcopy(base)
    p['motor']['w0'] = [p['motor']['w0'][0] * (1.0 + 1e-13), p['motor']['w0'][1]]
    op, bp, tp = _outcome(p)
    if op[0] != 'ok' or not tp or tp[-1].n != a.n:
        return True
    sa, sp = C12._series(a), C12._series(tp[-1])
    for key in sa:
        x, z = sa[key], sp.get(key)
        if x is None or z is None or len(x) != len(z) or len(x) == 0:
            continue
        scale = max(float(np.max(np.abs(x))), float(np.max(np.abs(z))), 1e-300, 1e-6 * _natural_scale(mdl, key, base))
        if np.any(~(np.abs(x - z) <= 1e-7 * scale)):
            return True
    return False


def check(case) -> Result:
    res = Result()
    base = {k: v for k, v in case.items() if k != 'reunits'}
    partner, changed = reexpress(base, case['reunits'])
    oa, ba, ta = _outcome(base)
    ob, bb, tb = _outcome(partner)
    res.hist['quantities-changed'] = changed['n']
    for k in changed['kinds']:
        res.hist[f'kind-changed:{k}'] = 1
    res.nontrivial = changed['n'] >= 5 and changed['time'] and changed['angle']
    if oa[:2] != ob[:2]:
        res.bad(f'C07/outcome-differs/{oa[0]}-{oa[1]}/{ob[0]}-{ob[1]}',
                f'as generated: {oa}; re-expressed in other units: {ob}')
        res.classes += ('outcome-differs',)
        return res
    if oa[0] != 'ok':
        res.classes += (f'both-{oa[0]}-{oa[1]}',)
        if oa[0] == 'build' or not ta or not tb:
            res.nontrivial = res.nontrivial and oa[0] != 'build'
            return res
    if not ta or not tb:
        return res
    a, b = ta[-1], tb[-1]
    mdl = ba.model
    if not (I.complete(a) and I.finite_trace(a) and I.complete(b) and I.finite_trace(b)):
        res.classes += ('incomplete-or-nonfinite-trace',)
        return res
    m = 1.0 if case.get('exact_ties') else _margins(base, mdl, a)
    if m < 1e-6:
        res.classes += ('near-threshold-discarded',)
        return res
    if a.n != b.n:
        res.bad('C07/instant-count', f'{a.n} instants as generated, {b.n} with re-expressed units '
                f'(runs {[(op.get("dt"), op.get("T")) for op in base["history"]]} vs '
                f'{[(op.get("dt"), op.get("T")) for op in partner["history"]]})')
        return res
    sa, sb = C12._series(a), C12._series(b)
    if sa.keys() != sb.keys():
        res.bad('C07/variables-differ', f'recorded variables differ: {sorted(set(sa) ^ set(sb))}')
        return res
    for key in sa:
        x, y = sa[key], sb[key]
        if x is None or y is None or len(x) != len(y):
            res.bad('C07/series-length', f'series {key}: lengths differ')
            return res
        if len(x) == 0:
            continue
        scale = max(float(np.max(np.abs(x))), float(np.max(np.abs(y))), 1e-300)
        # a series that is zero up to rounding (balanced torques, a drive at rest) has no scale of its own: measure
        # it against the natural magnitude of its variable in this model
        scale = max(scale, 1e-6 * _natural_scale(mdl, key, base))
        bad = np.nonzero(~(np.abs(x - y) <= 1e-7 * scale))[0]
        if len(bad) and _ill_conditioned(base, a, mdl):
            res.classes += ('ill-conditioned-discarded',)
            return res
        if len(bad):
            k = int(bad[0])
            var = key.split(':', 1)[-1]
            res.bad(f'C07/series-differs/{var.replace(" ", "-")}',
                    f'series {key} differs first at instant {k}: {x[k]!r} as generated vs {y[k]!r} re-expressed '
                    f'(scale {scale!r}, {len(bad)} of {len(x)} samples); changed kinds {sorted(changed["kinds"])}')
            return res
    snap = case.get('snap')
    if snap and a.n >= 2 and a.t[-1] > a.t[0]:
        # snapshots are physical outputs too: the same instant, written in seconds for one powertrain and in another time
        # unit for the other, strictly inside the recorded range; all columns requested in SI units
        import contextlib
        import io
        t_si = float(a.t[0] + (a.t[-1] - a.t[0]) * snap['frac'])
        tunits = list(U.UNITS['Time'])
        u2 = tunits[snap['unit'] % len(tunits)]
        dfs = []
        for bx, tq in ((ba, U.cls('Time')(t_si, 'sec')), (bb, U.cls('Time')(float(U.convert_exact('Time', t_si, 'sec', u2)), u2))):
            try:
                with contextlib.redirect_stdout(io.StringIO()):
                    dfs.append(bx.powertrain.snapshot(target_time=tq, stress_unit='Pa', print_data=False))
            except Exception as e:  # noqa
                dfs.append(e)
        if isinstance(dfs[0], Exception) != isinstance(dfs[1], Exception):
            res.bad('C07/snapshot-outcome-differs', f'snapshot at {t_si!r} s (recorded range {a.t[0]!r}..{a.t[-1]!r} s): as generated '
                    f'{dfs[0] if isinstance(dfs[0], Exception) else "ok"!r}, re-expressed (target in {u2}) '
                    f'{dfs[1] if isinstance(dfs[1], Exception) else "ok"!r}')
            return res
        if not isinstance(dfs[0], Exception):
            da, db = dfs
            if list(da.columns) != list(db.columns) or da.shape != db.shape:
                res.bad('C07/snapshot-columns-differ', f'snapshot columns {list(da.columns)} vs {list(db.columns)}')
                return res
            for col in da.columns:
                var = col.split(' (')[0]
                for i in range(da.shape[0]):
                    key = f'{i}:{var}'
                    x, y = float(da[col].iloc[i]), float(db[col].iloc[i])
                    if np.isnan(x) and np.isnan(y):
                        continue
                    sc = 1e-300
                    if key in sa and sa[key] is not None and len(sa[key]):
                        sc = max(float(np.max(np.abs(sa[key]))), float(np.max(np.abs(sb[key]))), 1e-300,
                                 1e-6 * _natural_scale(mdl, key, base))
                    else:
                        sc = max(abs(x), abs(y), 1e-300)
                    if not abs(x - y) <= 1e-6 * sc:
                        res.bad(f'C07/snapshot-differs/{var.replace(" ", "-")}',
                                f'snapshot at {t_si!r} s, element {i}, {col}: {x!r} as generated vs {y!r} with re-expressed '
                                f'units (target written in {u2}; scale {sc!r}); changed kinds {sorted(changed["kinds"])}')
                        return res
            res.classes += ('snapshot-compared',)
    res.classes += ('compared', 'self-locking' if mdl.self_locking else 'free',
                    'stop' if base.get('stop') else 'no-stop', 'controlled' if base.get('control') else 'uncontrolled')
    return res


# ---------------------------------------------------------------------------------------
def check_ctor(case) -> Result:
    """accept / reject of one component must not depend on the unit of any argument"""
    from vp import build as B
    res = Result()
    spec = case['spec']
    outcomes = {}
    fields = QUANTITY_FIELDS['motor'] if spec['type'] == 'motor' else QUANTITY_FIELDS['element']
    f = case['field']
    kind = fields[f]
    for u in U.UNITS[kind]:
        s = dict(spec)
        s[f] = _conv(kind, spec[f], u)
        try:
            B.make_element(s, 'x')
            outcomes[u] = 'ok'
        except Exception as e:  # noqa
            outcomes[u] = type(e).__name__
    res.nontrivial = True
    res.classes += (f'type:{spec["type"]}', f'field:{f}', 'accepted' if outcomes[spec[f][1]] == 'ok' else 'rejected')
    if len(set(outcomes.values())) > 1:
        if case.get('near_limit'):
            res.classes += ('near-limit-not-judged',)
            return res
        res.bad(f'C07/constructor/{spec["type"]}/{f}', f'{spec} with {f} re-expressed: outcomes {outcomes}')
    return res


@st.composite
def s_ctor(draw):
    from vp.props import c10 as C10
    t = draw(st.sampled_from(['motor', 'spur', 'helical', 'worm', 'wheel', 'worm', 'wheel']))
    near = False
    if t == 'motor':
        spec = dict(draw(G.s_motor(currents=True)), type='motor')
        f = draw(st.sampled_from(['J', 'w0', 'tmax', 'i0', 'imax']))
    else:
        spec = {'type': t, 'J': G.qty('InertiaMoment', draw(G.s_mag(-8, -2)), draw(G.s_unit('InertiaMoment')))}
        if t in ('spur', 'helical', 'wheel'):
            spec['n_teeth'] = draw(st.integers(10, 100))
            spec['module'] = G.qty('Length', draw(G.s_mag(-4, -2)), draw(G.s_unit('Length')))
            spec['face_width'] = G.qty('Length', draw(G.s_mag(-3, -1)), draw(G.s_unit('Length')))
        if t in ('spur', 'helical'):
            spec['E'] = G.qty('Stress', draw(G.s_mag(9, 12)), draw(G.s_unit('Stress')))
        if t == 'helical':
            spec['helix'] = G.qty('Angle', draw(st.floats(0, 1.5)), draw(G.s_unit('Angle')))
        if t == 'worm':
            spec['n_starts'] = draw(st.integers(1, 4))
            spec['ref_diameter'] = G.qty('Length', draw(G.s_mag(-3, -1)), draw(G.s_unit('Length')))
        if t in ('worm', 'wheel'):
            pa = draw(st.sampled_from(list(G.WORM_LIMIT)))
            spec['pressure'] = [pa, 'deg']
            import math
            lim = math.radians(G.WORM_LIMIT[pa])
            frac = draw(st.one_of(st.floats(0.05, 0.98), st.floats(1.02, 1.5)))
            spec['helix'] = G.qty('Angle', lim * frac, draw(G.s_unit('Angle')))
        f = draw(st.sampled_from([k for k in QUANTITY_FIELDS['element'] if spec.get(k) is not None]))
    return {'spec': spec, 'field': f, 'near_limit': near}


@st.composite
def s_case(draw, max_len=5, max_steps=30):
    chain = draw(G.s_chain(max_len=max_len, worm=draw(st.sampled_from(['maybe', 'yes', 'no'])), requal=False))
    case = {'motor': draw(G.s_motor()), 'chain': chain}
    mdl = M.Model(case)
    case['load'] = G.s_load(draw, mdl)
    case['init'] = G.s_init(draw, mdl)
    run1 = G.s_run(draw, mdl, max_steps=max_steps)
    hist = [run1]
    if draw(st.integers(0, 2)) == 0:
        hist.append(G.s_run(draw, mdl, max_steps=max_steps // 2))
    case['history'] = hist
    horizon = G.horizon(case)
    rules = G.s_constant_rules(draw, horizon, max_rules=2)
    n = mdl.n
    if draw(st.integers(0, 2)) == 0:
        enc = draw(st.integers(0, n - 1))
        travel = mdl.noload_out * horizon * 0.5 * mdl.cum_ratio(enc)
        tgt = travel * draw(st.floats(0.3, 1.0)) + U.si('AngularPosition', *case['init']['pos']) * mdl.cum_ratio(enc)
        rules.append({'rule': 'reach', 'enc': enc, 'target': G.qty('AngularPosition', tgt, draw(G.s_unit('AngularPosition'))),
                      'braking': G.qty('Angle', abs(travel) * draw(st.floats(0.05, 0.3)) + 1e-6, draw(G.s_unit('Angle')))})
    if rules:
        # a reach rule may overlap a timer window: keep at most the reach rule plus windows that end early
        case['control'] = rules
        for op in hist:
            op['control'] = True
    if draw(st.integers(0, 2)) == 0:
        sensor = draw(st.sampled_from(['encoder', 'tachometer'] + (['amperometer'] if case['motor'].get('i0') is not None else [])))
        tgt_el = draw(st.integers(0, n - 1))
        if sensor == 'encoder':
            thr = U.si('AngularPosition', *case['init']['pos']) * mdl.cum_ratio(tgt_el) + \
                mdl.noload_out * mdl.cum_ratio(tgt_el) * horizon * draw(st.floats(0.05, 0.8))
        elif sensor == 'tachometer':
            thr = mdl.noload_out * mdl.cum_ratio(tgt_el) * draw(st.floats(0.1, 0.95))
        else:
            thr = mdl.i0 + (mdl.imax - mdl.i0) * draw(st.floats(0.1, 0.9))
        case['stop'] = {'sensor': sensor, 'target': tgt_el, 'op': draw(st.sampled_from(['gt', 'ge', 'lt', 'le'])),
                        'threshold': G.qty(STOP_KIND[sensor], thr, draw(G.s_unit(STOP_KIND[sensor])))}
        hist[0]['stop'] = True
    case['reunits'] = draw(st.lists(st.integers(0, 16), min_size=90, max_size=90))
    if draw(st.booleans()):
        case['snap'] = {'frac': draw(st.floats(0.02, 0.98)), 'unit': draw(st.integers(0, 3))}
    return case


@st.composite
def s_tie_case(draw):
    """timer windows that end EXACTLY on a simulated instant, in every unit: dt = m * 10^-e, window [0, 2^j dt] (the
    float of the decimal literal of 2^j dt is exactly 2^j times the float of dt, and correctly rounded unit conversions
    commute with the power of two), so the inclusive end is decidable and must not depend on the units"""
    from fractions import Fraction as Fr
    case = {'motor': draw(G.s_motor()), 'chain': draw(G.s_chain(max_len=3, worm='no', requal=False))}
    mdl = M.Model(case)
    case['load'] = G.s_load(draw, mdl, kinds=('const', 'speed'))
    case['init'] = G.s_init(draw, mdl, at_rest=True)
    # decimal step close to 0.1 / k
    target = 0.1 / mdl.k
    e = draw(st.integers(1, 3))
    import math
    p10 = math.floor(math.log10(target))
    m = draw(st.integers(1, 999))
    u = draw(G.s_unit('TimeInterval'))
    dt_sec = Fr(m) * Fr(10) ** (p10 - 2)
    j = draw(st.integers(1, 3))
    n = 2 ** (j + 1)
    fu = U.factor('TimeInterval', u)
    dt = [float(dt_sec / fu), u]
    case['history'] = [{'op': 'run', 'dt': dt, 'T': [float(dt_sec * n / fu), u], 'control': True}]
    case['control'] = [{'rule': 'constant', 'start': [0, u], 'duration': [float(dt_sec * 2 ** j / fu), u],
                        'value': G._duty(draw(st.floats(-1, 1)))}]
    case['exact_ties'] = True
    case['reunits'] = draw(st.lists(st.integers(0, 16), min_size=60, max_size=60))
    return case


def parts(tier):
    if tier == 'quick':
        return [Part('models', check, strategy=s_case(), examples=150, shards=4),
                Part('ties', check, strategy=s_tie_case(), examples=80, shards=2),
                Part('constructors', check_ctor, strategy=s_ctor(), examples=250, shards=2)]
    return [Part('models', check, strategy=s_case(8, 100), examples=1500, shards=12),
            Part('ties', check, strategy=s_tie_case(), examples=1500, shards=2),
            Part('constructors', check_ctor, strategy=s_ctor(), examples=10000, shards=2)]
