"""C10 — declaring a mating or joint sets a consistent, validated relation."""
from __future__ import annotations

from hypothesis import strategies as st

from vp.runner import Part, Result
from vp.oracle import units_si as U
from vp.oracle import relations as R
from vp import build as B

ID = 'C10'
RULE = ('Hypothesis draws a pool of 2..8 elements of all six kinds (teeth/starts, modules, helix and pressure '
        'angles from palettes that make both compatible and incompatible pairs likely, same magnitude in '
        'different units included) and a sequence of 1..12 declaration calls (add_gear_mating / '
        'add_worm_gear_mating / add_fixed_joint) over arbitrary pairs from the pool - motor as slave, an element '
        'with itself, spur with helical, worm with worm - with efficiencies / friction coefficients inside and '
        'outside [0,1]. Before each call the public relation attributes of EVERY element are snapshotted; a '
        'reference model predicts accept/reject. Rejected: exception type, reason exists, nothing changed. '
        'Accepted: no reason exists, mutual links, roles, ratio, efficiency (documented friction formula per '
        'orientation), self-locking flag, ratio > 0, 0 <= efficiency <= 1, no other element changed. '
        'Non-trivial = the sequence has a rejected call after an accepted one; distinct = canonical JSON.')
ASSUMPTIONS = [
    'worm/wheel pairs with different helix angles and numeric conditions '
    'within 1e-9 of their threshold are not predicted (only the consistency of the observed outcome is checked)',
    'a WormWheel handed to add_gear_mating is a helical gear (it is a HelicalGear subclass with a helix angle): '
    'with a spur gear, or with another helix angle, the pair is incompatible',
    'the efficiency of a fixed joint is not specified by the statement and is only required to stay in [0,1]',
]

FN = {'gear': 'add_gear_mating', 'worm': 'add_worm_gear_mating', 'joint': 'add_fixed_joint'}


def check(case) -> Result:
    import gearpy.utils as gu
    from gearpy.mechanical_objects import MatingMaster, MatingSlave
    res = Result()
    specs = case['elements']
    try:
        els = [B.make_element(s, name=f'e{i}') for i, s in enumerate(specs)]
    except Exception as e:  # noqa
        return Result(classes=(f'element-rejected:{type(e).__name__}',))
    accepted = rejected = rejected_after_accept = 0
    classes = set()
    touched = set()      # elements with a parameter re-expressed in place: a conversion round trip may move a value by
    #                      an ulp, and same-unit comparisons are exact - their compatibility is then too close to call
    for n, call in enumerate(case['calls']):
        fn = call['fn']
        mi, si = call['m'] % len(els), call['s'] % len(els)
        m, s = els[mi], els[si]
        ms, ss = specs[mi], specs[si]
        x = call.get('x')
        for ei, attr, unit in call.get('reexpress') or []:
            # before the call the user re-expresses a parameter of an element in place (same physical quantity)
            q_ = getattr(els[ei % len(els)], attr, None)
            if q_ is not None and hasattr(q_, 'to'):
                q_.to(unit, inplace=True)
                classes.add('parameter-re-expressed')
                touched.add(ei % len(els))
        if fn == 'gear':
            reasons, amb, exp = R.gear_mating(ms, ss, mi == si, x)
            args = dict(master=m, slave=s, efficiency=x)
        elif fn == 'worm':
            reasons, amb, exp = R.worm_mating(ms, ss, x)
            args = dict(master=m, slave=s, friction_coefficient=x)
        else:
            reasons, amb, exp = R.fixed_joint(ms, ss, mi == si)
            args = dict(master=m, slave=s)
        if fn in ('gear', 'worm') and (mi in touched or si in touched):
            amb = True
        before = [B.relation_state(e) for e in els]
        tag = f'{fn}({ms["type"]}->{ss["type"]})'
        try:
            getattr(gu, FN[fn])(**args)
            raised = None
        except Exception as e:  # noqa
            raised = e
        after = [B.relation_state(e) for e in els]
        ctx = f'call {n} {FN[fn]}({ms}, {ss}, {x!r})'
        if raised is not None:
            rejected += 1
            if accepted:
                rejected_after_accept += 1
            classes.add('rejected:' + (sorted(reasons)[0] if reasons else 'unpredicted'))
            changed = [i for i in range(len(els)) if not B.same_state(before[i], after[i])]
            if changed:
                res.bad(f'C10/{fn}/rejected-call-mutates',
                        f'{ctx} raised {type(raised).__name__} but modified element(s) {changed}: '
                        f'before {[_fmt(before[i]) for i in changed]} after {[_fmt(after[i]) for i in changed]}')
                # continue with the (corrupted) state: later steps compare against fresh snapshots
            if not isinstance(raised, (TypeError, ValueError)) and 'Error:efficiency-undefined' not in reasons:
                res.bad(f'C10/{fn}/wrong-exception/{type(raised).__name__}', f'{ctx} raised {type(raised).__name__}: {raised}')
            if not reasons and not amb:
                res.bad(f'C10/{fn}/valid-pair-rejected', f'{ctx} raised {type(raised).__name__}: {raised}; '
                        f'no documented rejection reason applies')
            continue
        accepted += 1
        classes.add(f'accepted:{fn}')
        if fn == 'worm' and abs(U.si('Angle', *ms['pressure']) - 0.3490658503988659) > 1e-6:
            classes.add('worm-pressure-not-20')
        if reasons and not amb:
            res.bad(f'C10/{fn}/incompatible-accepted:{sorted(reasons)[0]}', f'{ctx} accepted although {sorted(reasons)}')
        am, as_ = after[mi], after[si]
        if am.get('drives') is not s or as_.get('driven_by') is not m:
            res.bad(f'C10/{fn}/links', f'{ctx}: master.drives / slave.driven_by not set mutually')
        if exp and exp['roles']:
            if am.get('mating_role') is not MatingMaster or as_.get('mating_role') is not MatingSlave:
                res.bad(f'C10/{fn}/roles', f'{ctx}: roles {am.get("mating_role")}, {as_.get("mating_role")}')
        ratio = as_.get('master_gear_ratio')
        eff = as_.get('master_gear_efficiency')
        if not (isinstance(ratio, float) and ratio > 0):
            res.bad(f'C10/{fn}/ratio-not-positive', f'{ctx}: ratio {ratio!r}')
        elif exp and not (abs(ratio - exp['ratio']) <= 1e-12 * exp['ratio'] and
                          (fn != 'joint' or ratio == 1.0)):
            res.bad(f'C10/{fn}/ratio', f'{ctx}: ratio {ratio!r}, expected {exp["ratio"]!r}')
        if not (isinstance(eff, (int, float)) and 0 <= eff <= 1):
            res.bad(f'C10/{fn}/efficiency-out-of-range', f'{ctx}: efficiency {eff!r}')
        elif fn == 'gear' and not (eff == x):
            res.bad('C10/gear/efficiency', f'{ctx}: efficiency {eff!r}, expected {x!r}')
        elif fn == 'worm' and exp and 'efficiencies' in exp:
            cands = [e for e in exp['efficiencies'] if e is not None]
            if cands and not any(abs(eff - e) <= 1e-9 * max(abs(e), 1e-3) for e in cands):
                res.bad('C10/worm/efficiency-formula/' + ('worm-drives' if ms['type'] == 'worm' else 'wheel-drives'),
                        f'{ctx}: efficiency {eff!r}, documented formula gives {cands}')
        if fn == 'worm' and exp and exp.get('self_locking') is not None:
            worm_ix = mi if ms['type'] == 'worm' else si
            flag = after[worm_ix].get('self_locking')
            if flag is not exp['self_locking']:
                res.bad('C10/worm/self-locking-flag', f'{ctx}: worm.self_locking = {flag!r}, criterion gives '
                        f'{exp["self_locking"]!r}')
            classes.add('self-locking' if exp['self_locking'] else 'not-self-locking')
        # nothing else changed
        allowed = {mi: {'drives', 'mating_role', 'self_locking'},
                   si: {'driven_by', 'mating_role', 'master_gear_ratio', 'master_gear_efficiency', 'self_locking'}}
        if fn == 'joint':
            allowed = {mi: {'drives'}, si: {'driven_by', 'master_gear_ratio'}}
        if mi == si:
            allowed = {mi: allowed[mi] | allowed.get(si, set())}
        for i in range(len(els)):
            for k in before[i]:
                if k in allowed.get(i, ()):
                    continue
                if not B.same_state({k: before[i][k]}, {k: after[i][k]}):
                    res.bad(f'C10/{fn}/unrelated-attribute-changed',
                            f'{ctx}: element {i} ({specs[i]["type"]}) attribute {k} changed '
                            f'{before[i][k]!r} -> {after[i][k]!r}')
    res.nontrivial = rejected_after_accept > 0
    res.classes = tuple(sorted(classes))
    return res


def _fmt(state):
    return {k: (getattr(v, 'name', None) or getattr(v, '__name__', None) or v) for k, v in state.items()}


# ---------------------------------------------------------------------------------------
MODULES = [None, [1, 'mm'], [0.001, 'm'], [0.1, 'cm'], [2, 'mm'], [1.5, 'mm'], [2.0, 'mm']]
HELIX = [[20, 'deg'], [1200, 'arcmin'], [15, 'deg'], [10, 'deg'], [5, 'deg'], [30, 'deg'], [40, 'deg'],
         [44, 'deg'], [0.2617993877991494, 'rad'], [0, 'deg'], [1, 'deg']]
PRESSURE = [[14.5, 'deg'], [20, 'deg'], [25, 'deg'], [30, 'deg'], [1200, 'arcmin'], [72000, 'arcsec']]
LIMIT = {14.5: 16.0, 20.0: 25.0, 25.0: 35.0, 30.0: 45.0}


def _deg(pair):
    import math
    return math.degrees(U.si('Angle', *pair))


@st.composite
def s_element(draw):
    t = draw(st.sampled_from(['motor', 'flywheel', 'spur', 'spur', 'helical', 'helical', 'worm', 'worm',
                              'wheel', 'wheel']))
    spec = {'type': t}
    if t == 'motor':
        spec.update(w0=[1000, 'rpm'], tmax=[1, 'Nm'])
    elif t in ('spur', 'helical', 'wheel'):
        spec['n_teeth'] = draw(st.integers(10, 120))
        spec['module'] = draw(st.sampled_from(MODULES))
    if t == 'worm':
        spec['n_starts'] = draw(st.integers(1, 4))
    if t == 'helical':
        spec['helix'] = draw(st.sampled_from(HELIX))
    if t in ('worm', 'wheel'):
        spec['pressure'] = draw(st.sampled_from(PRESSURE))
        lim = LIMIT[round(_deg(spec['pressure']) * 2) / 2]
        spec['helix'] = draw(st.sampled_from([h for h in HELIX if _deg(h) <= lim * (1 - 1e-9)]))
    return spec


@st.composite
def s_case(draw):
    els = draw(st.lists(s_element(), min_size=2, max_size=8))
    # make a matching worm / wheel partner likely
    for e in list(els):
        if e['type'] in ('worm', 'wheel') and draw(st.booleans()) and len(els) < 9:
            p = dict(e)
            p['type'] = 'wheel' if e['type'] == 'worm' else 'worm'
            p.pop('n_teeth', None), p.pop('n_starts', None), p.pop('module', None)
            if p['type'] == 'wheel':
                p['n_teeth'] = draw(st.integers(10, 120))
            else:
                p['n_starts'] = draw(st.integers(1, 4))
            els.append(p)
    num = st.one_of(st.floats(0, 1), st.floats(-0.5, 1.5), st.sampled_from([0, 1, 0.0, 1.0, 0.3, 0.99, 0.05]))
    n = len(els)
    # pairs the reference model would accept (with a mid-range coefficient): half of the calls aim at them
    good = {'gear': [], 'worm': [], 'joint': []}
    for i in range(n):
        for j in range(n):
            if not R.gear_mating(els[i], els[j], i == j, 0.9)[0]:
                good['gear'].append((i, j))
            if not R.fixed_joint(els[i], els[j], i == j)[0]:
                good['joint'].append((i, j))
            r = R.worm_mating(els[i], els[j], 0.05)[0]
            if not r or r == {'ValueError:efficiency-out-of-range'} or r == {'Error:efficiency-undefined'}:
                good['worm'].append((i, j))
    calls = []
    for _ in range(draw(st.integers(1, 12))):
        fn = draw(st.sampled_from(['gear', 'gear', 'worm', 'worm', 'joint']))
        if good[fn] and draw(st.booleans()):
            m, s = draw(st.sampled_from(good[fn]))
        else:
            m, s = draw(st.integers(0, n - 1)), draw(st.integers(0, n - 1))
        calls.append({'fn': fn, 'm': m, 's': s, 'x': draw(num)})
        if draw(st.integers(0, 4)) == 0:
            kinds = {'helix_angle': 'Angle', 'pressure_angle': 'Angle', 'module': 'Length'}
            calls[-1]['reexpress'] = [[draw(st.sampled_from([m, s])), a_, draw(st.sampled_from(list(U.UNITS[kinds[a_]])))]
                                      for a_ in draw(st.lists(st.sampled_from(sorted(kinds)), min_size=1, max_size=2))]
    return {'elements': els, 'calls': calls}


def parts(tier):
    if tier == 'quick':
        return [Part('declarations', check, strategy=s_case(), examples=1500, shards=4)]
    return [Part('declarations', check, strategy=s_case(), examples=15000, shards=16)]


def selftest():
    import math
    # documented formulas, worked by hand: alpha=20deg, beta=10deg, f=0.1, worm drives
    e = R.worm_efficiency(True, math.radians(20), math.radians(10), 0.1)
    assert abs(e - (math.cos(math.radians(20)) - 0.1 * math.tan(math.radians(10))) /
               (math.cos(math.radians(20)) + 0.1 / math.tan(math.radians(10)))) < 1e-15
    assert 0.6 < e < 0.62
