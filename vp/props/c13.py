"""C13 — a self-locking powertrain is never driven by its load."""
from __future__ import annotations

import numpy as np
from hypothesis import strategies as st

from vp.runner import Part, Result
from vp.oracle import units_si as U
from vp import gen as G
from vp import model as M
from vp import invariants as I
from vp import simprops as SP

ID = 'C13'
RULE = ('Powertrains containing a worm mating, friction coefficient drawn on both sides of f = cos(alpha) tan(beta) '
        '(f = crit * (1 +- delta)), constant + speed/position/time dependent loads from 0.1x to 100x the stall torque '
        'of either sign, duty-cycle histories from disjoint ConstantPWM windows with zeros and sign changes, initial '
        'duty cycles of either sign, all step sizes, histories run | run+continue (the duty cycle optionally set by hand in '
        'between) | run,reset,rerun. Oracle: the '
        'documented lock decisions replayed over the RECORDED values (duty cycle in force = the one recorded at the '
        'previous instant; advanced motor speed from the recorded speed and acceleration; release iff the previous '
        'motor net torque points in the commanded direction). Checked at every instant: motor speed never against '
        'the duty cycle in force (zero when it is zero); while held all speeds and accelerations exactly 0 and '
        'positions constant; motion resumes only on release; when not held - and always in a powertrain without a '
        'self-locking mating - the recorded speed equals the advanced speed (never clamped). Non-trivial = the '
        'trace has both a held and a moving instant (free powertrains: the load drives the motor against the duty '
        'cycle at some instant); distinct = canonical JSON.')
ASSUMPTIONS = ['decisions within 1e-9 of their threshold (advanced motor speed or previous torque ~ 0) are not '
               'predicted: the machine resynchronises on the observation', 'friction coefficients within 1e-9 of the '
               'criterion are not judged']


def check(case) -> Result:
    res = Result()
    r = SP.simulate_checked(case, res, ID)
    if r is None:
        return res
    b, traces, err = r
    mdl = b.model
    out = []
    n = 0
    both = False
    amb_total = 0
    for tr, dts, init, hand in SP.segments(case, traces, with_init=True, with_pwm=True):
        w_init = U.si('AngularSpeed', *init['speed'])
        if not I.complete(tr) or not I.finite_trace(tr):
            res.classes += ('incomplete-or-nonfinite-trace',)
            continue
        held, amb = I.lock_machine(mdl, tr, dts, case['motor'].get('pwm0', 1), w_init, out, hand=hand)
        amb_total += amb
        n += tr.n
        wm, pw = tr.get(0, 'angular speed'), tr.get(0, 'pwm')
        moving = wm != 0
        if mdl.self_locking:
            both = both or bool(np.any(held) and np.any(moving))
        else:
            # free powertrain: non-trivial when the load does drive the motor against the duty cycle (the
            # situation in which a wrongly applied clamp would show)
            both = both or bool(np.any(((pw > 0) & (wm < 0)) | ((pw < 0) & (wm > 0)) | ((pw == 0) & (wm != 0))))
    seen = set()
    for sig, msg in out:
        if sig not in seen:
            seen.add(sig)
            res.bad(sig, msg)
    res.count = max(n, 1)
    res.nontrivial = both
    res.hist['ambiguous-instants'] = amb_total
    res.classes += ('self-locking' if mdl.self_locking else 'free', 'held+moving' if both else 'no-mix',
                    'controlled' if case.get('control') else 'uncontrolled')
    return res


@st.composite
def s_case(draw, max_len=5, max_steps=40):
    case = {'motor': draw(G.s_motor(currents=True if draw(st.integers(0, 3)) else None)),
            'chain': draw(G.s_chain(max_len=max_len, worm='yes', locking=draw(st.sampled_from([True, True, None]))))}
    mdl = M.Model(case)
    load = G.s_load(draw, mdl)
    mult = draw(st.one_of(st.floats(0.1, 3.0), st.floats(1.0, 100.0), st.sampled_from([0.0, 1.0, 5.0])))
    load['c0'] = mdl.stall_out * mult * draw(st.sampled_from([1, 1, -1]))
    case['load'] = load
    case['init'] = G.s_init(draw, mdl)
    G.add_variants(draw, case)
    case['motor']['pwm0'] = draw(st.sampled_from([1, 1, 1, 0.5, -1, 0, -0.5, 0.0]))
    if draw(st.integers(0, 5)) == 0 and case['motor']['pwm0']:
        # a constant load a hair above (or below) stall, from rest: the net torque and the back-driven speed are tiny
        # but their signs are exact, and the sign is what the documented conditions read
        hair = draw(st.sampled_from([0.0, 1e-15, 2e-15, 1e-14, 1e-13, 1e-12, 1e-10, -1e-15, -1e-13]))
        load.update(c0=mdl.stall_out * case['motor']['pwm0'] * (1 + hair), cw=0.0, csin=0.0, ct=0.0)
        case['init'] = {'pos': case['init']['pos'], 'speed': [0.0, case['init']['speed'][1]]}
        case['motor'].update(i0=None, imax=None)
    h = draw(st.sampled_from(['run', 'run', 'run+continue', 'reset+rerun']))
    run1 = G.s_run(draw, mdl, max_steps=max_steps)
    if h == 'run':
        case['history'] = [run1]
    elif h == 'run+continue':
        case['history'] = [run1, G.s_run(draw, mdl, max_steps=max(3, max_steps // 2))]
        if draw(st.booleans()):
            # the user sets the duty cycle by hand before continuing (switch off, reverse, switch on again)
            case['history'].insert(1, {'op': 'set_pwm', 'value': draw(st.sampled_from([0, 0.0, -1, -0.5, 0.5, 1, 0]))})
    else:
        reset = {'op': 'reset', 'reinit': True}
        if draw(st.booleans()):
            reset['init'] = G.s_init(draw, mdl)          # rerun from other initial conditions
        case['history'] = [run1, reset, dict(run1, new_solver=draw(st.booleans()))]
    rules = G.s_constant_rules(draw, G.horizon(case), max_rules=4,
                               values=st.one_of(st.floats(-1, 1), st.sampled_from([0, 0.0, 1, -1, 0.5, -0.5, 0, 0])))
    if rules:
        case['control'] = rules
        for op in case['history']:
            if op['op'] == 'run':
                op['control'] = True
    return case


def parts(tier):
    if tier == 'quick':
        return [Part('worm-chains', check, strategy=s_case(), examples=300, shards=4),
                Part('free-chains', check, strategy=G.s_case_controlled(max_len=5, worm='no', max_steps=30),
                     examples=80, shards=2)]
    return [Part('worm-chains', check, strategy=s_case(max_len=8, max_steps=120), examples=2500, shards=14),
            Part('free-chains', check, strategy=G.s_case_controlled(max_len=8, worm='no', max_steps=80),
                 examples=2000, shards=2)]
