"""Pure-float view of a simulation case: everything the oracles need is recomputed from the case
(never read back from gearpy objects)."""
from __future__ import annotations

import math

from vp.oracle import units_si as U
from vp.oracle import relations as R


def tri(x: float) -> float:
    """triangle wave with period 1 and range [-1, 1], tri(0) = -1 ... piecewise linear"""
    return 2.0 * abs(2.0 * (x - math.floor(x + 0.5))) - 1.0


def load_si(load: dict, t: float, theta: float, omega: float) -> float:
    """external torque (N m) at time t (s), position theta (rad), speed omega (rad/s)"""
    out = load['c0'] + load['cw'] * omega
    if load.get('csin'):
        out += load['csin'] * math.sin(load['kpos'] * theta)
    if load.get('ct'):
        out += load['ct'] * tri(t / load['period'])
    return out


def ratio(prev: dict, el: dict) -> float:
    """gear ratio of `el` to its driver `prev` (driver speed / own speed)"""
    k = el['link']['kind']
    if k == 'joint':
        return 1.0
    if k == 'gear':
        return el['n_teeth'] / prev['n_teeth']
    if prev['type'] == 'worm':
        return el['n_teeth'] / prev['n_starts']
    return el['n_starts'] / prev['n_teeth']


def efficiency(prev: dict, el: dict) -> float:
    k = el['link']['kind']
    if k == 'joint':
        return 1.0
    if k == 'gear':
        return el['link']['eta']
    worm_is_master = prev['type'] == 'worm'
    alpha = U.si('Angle', *prev['pressure'])
    beta = U.si('Angle', *prev['helix'])
    return R.worm_efficiency(worm_is_master, alpha, beta, el['link']['f'])


def self_locking_flag(prev: dict, el: dict):
    """criterion for a worm link: f > cos(alpha) tan(beta) of the worm; None if too close"""
    worm = prev if prev['type'] == 'worm' else el
    crit = math.cos(U.si('Angle', *worm['pressure'])) * math.tan(U.si('Angle', *worm['helix']))
    f = el['link']['f']
    if abs(f - crit) <= 1e-9 * max(1.0, crit):
        return None
    return f > crit


class Model:
    """numbers derived from a case (SI floats)"""

    def __init__(self, case: dict):
        self.case = case
        m = case['motor']
        self.elements = [dict(m, type='motor')] + list(case['chain'])
        self.n = len(self.elements)
        self.ratios = [None] + [ratio(self.elements[i - 1], self.elements[i]) for i in range(1, self.n)]
        self.etas = [None] + [efficiency(self.elements[i - 1], self.elements[i]) for i in range(1, self.n)]
        self.J = [U.si('InertiaMoment', *e['J']) for e in self.elements]
        j = self.J[0]
        for i in range(1, self.n):
            j = j * self.ratios[i] + self.J[i]
        self.J_eq = j
        self.R = math.prod(self.ratios[1:])
        self.E = math.prod(self.etas[1:])
        self.Tmax = U.si('Torque', *m['tmax'])
        self.w0 = U.si('AngularSpeed', *m['w0'])
        self.i0 = U.si('Current', *m['i0']) if m.get('i0') is not None else None
        self.imax = U.si('Current', *m['imax']) if m.get('imax') is not None else None
        if self.i0 is None or self.imax is None:
            self.i0 = self.imax = None          # current data is used only when both values are given
        flags = [self_locking_flag(self.elements[i - 1], self.elements[i])
                 for i in range(1, self.n) if self.elements[i]['link']['kind'] == 'worm']
        self.locking_ambiguous = any(f is None for f in flags)
        self.self_locking = any(f is True for f in flags)
        self.k = self.Tmax * self.E * self.R ** 2 / (self.w0 * self.J_eq)   # rate constant at D = 1 (1/s)
        self.stall_out = self.Tmax * self.E * self.R                        # stall torque at the output
        self.noload_out = self.w0 / self.R                                  # no-load speed at the output

    def cum_ratio(self, i: int) -> float:
        """speed of element i / speed of the last element"""
        return math.prod(self.ratios[i + 1:]) if i + 1 < self.n else 1.0
