"""Tooth force / stress formulas as plain SI float functions, with the oracle's own copies of the
two data tables (Lewis form factor for 20 deg full-depth teeth as tabulated in the machine-design
handbooks; worm pressure-angle table of the documentation)."""
from __future__ import annotations

import bisect
import math

LEWIS = [(10, 0.201), (11, 0.226), (12, 0.245), (13, 0.264), (14, 0.276), (15, 0.289), (16, 0.295),
         (17, 0.302), (18, 0.308), (19, 0.314), (20, 0.320), (21, 0.325), (22, 0.330), (24, 0.337),
         (26, 0.344), (28, 0.352), (30, 0.358), (32, 0.364), (34, 0.370), (36, 0.377), (38, 0.383),
         (40, 0.389), (43, 0.394), (45, 0.399), (50, 0.408), (55, 0.415), (60, 0.421), (65, 0.425),
         (70, 0.429), (75, 0.433), (80, 0.436), (90, 0.442), (100, 0.446), (150, 0.458), (200, 0.463),
         (300, 0.471), (400, 0.478), (500, 0.484)]
_LX = [x for x, _ in LEWIS]
_LY = [y for _, y in LEWIS]
MIN_TEETH = 10

# pressure angle (deg) -> (maximum helix angle (deg), Lewis factor of the worm wheel)
WORM = {14.5: (16.0, 0.1), 20.0: (25.0, 0.125), 25.0: (35.0, 0.15), 30.0: (45.0, 0.175)}

ALPHA = math.radians(20.0)
HERTZ = 0.262922


def lewis(z: float) -> float:
    """linear interpolation in the table, clamped at both ends"""
    if z <= _LX[0]:
        return _LY[0]
    if z >= _LX[-1]:
        return _LY[-1]
    i = bisect.bisect_right(_LX, z)
    x0, x1, y0, y1 = _LX[i - 1], _LX[i], _LY[i - 1], _LY[i]
    return y0 + (y1 - y0) * (z - x0) / (x1 - x0)


def transverse_pressure_angle(beta: float) -> float:
    return math.atan(math.tan(ALPHA) / math.cos(beta))


def virtual_teeth(z: int, beta: float) -> float:
    a_t = transverse_pressure_angle(beta)
    beta_b = math.atan(math.cos(a_t) * math.tan(beta))
    return z / math.cos(beta_b) ** 2 / math.cos(beta)


def lewis_helical(z: int, beta: float) -> float:
    return lewis(virtual_teeth(z, beta))


def worm_pressure_row(alpha_rad: float):
    deg = math.degrees(alpha_rad)
    for k, v in WORM.items():
        if abs(deg - k) < 1e-6:
            return k, v
    return None, None


def tangential_force(ref_torque: float, diameter: float) -> float:
    return abs(ref_torque) / (diameter / 2)


def worm_gear_force(ref_torque: float, diameter: float, beta: float) -> float:
    # the worked example 7 of the documentation (0.080352 N) contains the tan(beta) factor
    return abs(ref_torque) / (diameter / 2) * math.tan(beta)


def bending(F, m, b, Y):
    return F / (m * b * Y)


def contact_spur(F, b, d1, d2, e1, e2):
    return HERTZ * math.sqrt(4 * F / (b * math.cos(ALPHA) * math.sin(ALPHA)) * (1 / d1 + 1 / d2) * e1 * e2 / (e1 + e2))


def contact_helical(F, b, beta, d1, d2, e1, e2):
    a_t = transverse_pressure_angle(beta)
    return HERTZ * math.sqrt(4 * F * math.cos(beta) / (b * math.cos(a_t) * math.sin(a_t)) *
                             (1 / d1 + 1 / d2) * e1 * e2 / (e1 + e2))


def wheel_bending(F, n_teeth, b, d_worm, beta_worm, Y):
    p_n = math.pi * d_worm * math.sin(beta_worm) / n_teeth
    b_eff = min(b, 0.67 * d_worm)
    return F / (p_n * b_eff * Y)
