"""Independent SI table: one unit = FRACTION * pi**K SI units, written from the SI definitions
(not copied from gearpy/units/units.py). Exact reference conversions via rationals and a
50-digit pi."""
from __future__ import annotations

from fractions import Fraction as Fr
import math

PI = Fr('3.14159265358979323846264338327950288419716939937510582097494459')
G0 = Fr('9.80665')          # standard gravity, m/s^2 (exact by definition)

_len = {'m': Fr(1), 'dm': Fr(1, 10), 'cm': Fr(1, 100), 'mm': Fr(1, 1000)}
_ang = {'rad': (Fr(1), 0), 'deg': (Fr(1, 180), 1), 'arcmin': (Fr(1, 180 * 60), 1),
        'arcsec': (Fr(1, 180 * 3600), 1), 'rot': (Fr(2), 1)}
_tim = {'sec': Fr(1), 'min': Fr(60), 'hour': Fr(3600), 'ms': Fr(1, 1000)}

# kind -> {unit: (fraction, pi_power)}
UNITS = {
    'AngularPosition': dict(_ang),
    'Angle': dict(_ang),
    'AngularSpeed': {
        'rad/s': (Fr(1), 0), 'rad/min': (Fr(1, 60), 0), 'rad/h': (Fr(1, 3600), 0),
        'deg/s': (Fr(1, 180), 1), 'deg/min': (Fr(1, 180 * 60), 1), 'deg/h': (Fr(1, 180 * 3600), 1),
        'rps': (Fr(2), 1), 'rpm': (Fr(2, 60), 1), 'rph': (Fr(2, 3600), 1)},
    'AngularAcceleration': {'rad/s^2': (Fr(1), 0), 'deg/s^2': (Fr(1, 180), 1), 'rot/s^2': (Fr(2), 1)},
    'InertiaMoment': {f'{m}{l}^2': (mv * lv * lv, 0)
                      for m, mv in (('kg', Fr(1)), ('g', Fr(1, 1000)))
                      for l, lv in _len.items()},
    'Torque': {},
    'Time': {u: (v, 0) for u, v in _tim.items()},
    'TimeInterval': {u: (v, 0) for u, v in _tim.items()},
    'Length': {u: (v, 0) for u, v in _len.items()},
    'Surface': {f'{u}^2': (v * v, 0) for u, v in _len.items()},
    'Force': {'N': (Fr(1), 0), 'mN': (Fr(1, 1000), 0), 'kN': (Fr(1000), 0),
              'kgf': (G0, 0), 'gf': (G0 / 1000, 0)},
    'Stress': {'Pa': (Fr(1), 0), 'kPa': (Fr(10) ** 3, 0), 'MPa': (Fr(10) ** 6, 0), 'GPa': (Fr(10) ** 9, 0)},
    'Current': {'A': (Fr(1), 0), 'mA': (Fr(1, 1000), 0), 'uA': (Fr(1, 10 ** 6), 0)},
}
for f, fv in (('mN', Fr(1, 1000)), ('kN', Fr(1000)), ('kgf', G0), ('gf', G0 / 1000)):
    for l, lv in _len.items():
        UNITS['Torque'][f'{f}{l}'] = (fv * lv, 0)
UNITS['Torque']['Nm'] = (Fr(1), 0)

KINDS = list(UNITS)

# sign constraint of a kind: 'pos' (> 0), 'nonneg' (>= 0) or None
SIGN = {'Angle': 'nonneg', 'InertiaMoment': 'pos', 'TimeInterval': 'pos', 'Length': 'pos', 'Surface': 'pos'}

# dimension vectors (M, L, T, I); the radian is dimensionless
DIM = {
    'AngularPosition': (0, 0, 0, 0), 'Angle': (0, 0, 0, 0),
    'AngularSpeed': (0, 0, -1, 0), 'AngularAcceleration': (0, 0, -2, 0),
    'InertiaMoment': (1, 2, 0, 0), 'Torque': (1, 2, -2, 0),
    'Time': (0, 0, 1, 0), 'TimeInterval': (0, 0, 1, 0),
    'Length': (0, 1, 0, 0), 'Surface': (0, 2, 0, 0),
    'Force': (1, 1, -2, 0), 'Stress': (1, -1, -2, 0), 'Current': (0, 0, 0, 1),
}
PARENT = {'Angle': 'AngularPosition', 'TimeInterval': 'Time'}

SI_UNIT = {'AngularPosition': 'rad', 'Angle': 'rad', 'AngularSpeed': 'rad/s',
           'AngularAcceleration': 'rad/s^2', 'InertiaMoment': 'kgm^2', 'Torque': 'Nm',
           'Time': 'sec', 'TimeInterval': 'sec', 'Length': 'm', 'Surface': 'm^2',
           'Force': 'N', 'Stress': 'Pa', 'Current': 'A'}


def factor(kind: str, unit: str) -> Fr:
    """SI value of one `unit` as an (almost) exact rational (pi to 60 digits)."""
    fr, k = UNITS[kind][unit]
    return fr * PI ** k


def factor_f(kind: str, unit: str) -> float:
    return float(factor(kind, unit))


def si_exact(kind: str, value, unit: str) -> Fr:
    return Fr(value) * factor(kind, unit)


def si(kind: str, value, unit: str) -> float:
    return float(si_exact(kind, value, unit))


def convert_exact(kind: str, value, u1: str, u2: str) -> Fr:
    f1, k1 = UNITS[kind][u1]
    f2, k2 = UNITS[kind][u2]
    return Fr(value) * f1 / f2 * PI ** (k1 - k2)


def convert(kind: str, value, u1: str, u2: str) -> float:
    return float(convert_exact(kind, value, u1, u2))


def ulps(x: float, y: float) -> float:
    """distance between x and y in units of the larger one's ulp"""
    if x == y:
        return 0.0
    m = max(abs(x), abs(y))
    return abs(x - y) / math.ulp(m)


def sign_ok(kind: str, value) -> bool:
    s = SIGN.get(kind)
    if s == 'pos':
        return value > 0
    if s == 'nonneg':
        return value >= 0
    return True


def cls(kind: str):
    import gearpy.units as gu
    return getattr(gu, kind)


def kind_of(obj) -> str:
    return type(obj).__name__


def all_unit_pairs():
    for kind in KINDS:
        for u1 in UNITS[kind]:
            for u2 in UNITS[kind]:
                yield kind, u1, u2


def n_unit_pairs():
    return sum(len(UNITS[k]) ** 2 for k in KINDS)
