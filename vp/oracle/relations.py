"""Reference model of the three declaration functions (acceptance rules and resulting state),
written from the documentation of gearpy.utils.relations and the property statements."""
from __future__ import annotations

import math

from vp.oracle import units_si as U

GEARS = ('spur', 'helical', 'wheel')          # GearBase subclasses
WORMS = ('worm', 'wheel')
AMBIG = 1e-9


def helix_si(spec):
    return U.si('Angle', *spec['helix'])


def pressure_si(spec):
    return U.si('Angle', *spec['pressure'])


def module_si(spec):
    return U.si('Length', *spec['module']) if spec.get('module') else None


def _differs(a, b):
    """True / False / None (too close to call)"""
    m = max(abs(a), abs(b))
    if a == b:
        return False
    if abs(a - b) <= AMBIG * m:
        return None
    return True


def gear_mating(ms, ss, same, eta):
    """-> (reasons:set, ambiguous:bool, expected:dict|None)"""
    reasons = set()
    amb = False
    if ms['type'] not in GEARS:
        reasons.add('TypeError:master-not-gear')
    if ss['type'] not in GEARS:
        reasons.add('TypeError:slave-not-gear')
    if reasons:
        return reasons, amb, None
    if same:
        reasons.add('ValueError:same-element')
    if isinstance(eta, bool) or not isinstance(eta, (int, float)):
        reasons.add('TypeError:efficiency-type')
        return reasons, amb, None
    if eta > 1 or eta < 0 or eta != eta:
        reasons.add('ValueError:efficiency-range')
    mm, sm = module_si(ms), module_si(ss)
    if mm is not None and sm is not None:
        d = _differs(mm, sm)
        if d is None:
            amb = True
        elif d:
            reasons.add('ValueError:module')
    mh = ms['type'] in ('helical', 'wheel')
    sh = ss['type'] in ('helical', 'wheel')
    if mh != sh:
        reasons.add('ValueError:spur-with-helical')
    elif mh and sh:
        d = _differs(helix_si(ms), helix_si(ss))
        if d is None:
            amb = True
        elif d:
            reasons.add('ValueError:helix')
    exp = {'ratio': ss['n_teeth'] / ms['n_teeth'], 'efficiency': eta, 'roles': True}
    return reasons, amb, exp


def worm_efficiency(worm_is_master, alpha, beta, f):
    ca, tb = math.cos(alpha), math.tan(beta)
    if worm_is_master:
        return (ca - f * tb) / (ca + f / tb)
    return (ca - f / tb) / (ca + f * tb)


def worm_mating(ms, ss, f):
    reasons = set()
    amb = False
    if ms['type'] not in WORMS:
        reasons.add('TypeError:master-not-worm-or-wheel')
    if ss['type'] not in WORMS:
        reasons.add('TypeError:slave-not-worm-or-wheel')
    if reasons:
        return reasons, amb, None
    if ms['type'] == ss['type']:
        reasons.add('TypeError:two-' + ms['type'] + 's')
        return reasons, amb, None
    if isinstance(f, bool) or not isinstance(f, (int, float)):
        reasons.add('TypeError:friction-type')
        return reasons, amb, None
    if f > 1 or f < 0 or f != f:
        reasons.add('ValueError:friction-range')
    d = _differs(pressure_si(ms), pressure_si(ss))
    if d is None:
        amb = True
    elif d:
        reasons.add('ValueError:pressure-angle')
    worm_is_master = ms['type'] == 'worm'
    worm, wheel = (ms, ss) if worm_is_master else (ss, ms)
    alpha = pressure_si(worm)
    bw, bz = helix_si(worm), helix_si(wheel)
    helix_amb = _differs(bw, bz) is not False     # worm and wheel helix differ: formula input unspecified
    exp = {'ratio': (wheel['n_teeth'] / worm['n_starts']) if worm_is_master
           else (worm['n_starts'] / wheel['n_teeth']),
           'roles': True, 'helix_ambiguous': helix_amb}
    if not reasons:
        etas = []
        for beta in ({bw, bz} if helix_amb else {bw}):
            try:
                etas.append(worm_efficiency(worm_is_master, alpha, beta, f))
            except ZeroDivisionError:
                etas.append(None)
        exp['efficiencies'] = etas
        if any(e is None for e in etas):
            # tan(beta) = 0: the documented formula has no value -> must be rejected (any error), unmodified
            reasons.add('Error:efficiency-undefined')
            if len(etas) > 1:
                amb = True
        else:
            bad = [e for e in etas if e < 0 or e > 1]
            near = [e for e in etas if abs(e) <= 1e-12 or abs(e - 1) <= 1e-12]
            if near or (bad and len(bad) != len(etas)):
                amb = True
            elif bad:
                reasons.add('ValueError:efficiency-out-of-range')
        crit = math.cos(alpha) * math.tan(bw)
        exp['self_locking'] = None if abs(f - crit) <= 1e-12 * max(1.0, abs(crit)) else (f > crit)
    return reasons, amb, exp


def fixed_joint(ms, ss, same):
    reasons = set()
    if ss['type'] == 'motor':
        reasons.add('TypeError:motor-as-slave')
    if same:
        reasons.add('ValueError:same-element')
    return reasons, False, {'ratio': 1.0, 'roles': False}
