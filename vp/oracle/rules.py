"""The four documented control rules as plain float functions (SI)."""
from __future__ import annotations

import math

from vp.oracle import motor as MO


def constant_active(t, start, duration):
    return start <= t <= start + duration


def static_error(load_torque, tmax, braking, eta_total):
    """theta_err = (T_l / T_max) * theta_b / eta_t ; 0 when the motor has no load torque yet"""
    if load_torque is None:
        return 0.0
    return (load_torque / tmax) * braking / eta_total


def reach(theta, target, braking, err):
    """-> (active, value)"""
    start = target - braking + err
    if theta >= start:
        return True, 1 - (theta - start) / braking
    return False, None


def pwm_min_candidate(load_torque, tmax, i0, imax, eta_total):
    return (1 / eta_total) * (load_torque / tmax) * ((imax - i0) / imax) + i0 / imax


def ramp(theta, target, dmin):
    if theta <= target:
        return True, (1 - dmin) * theta / target + dmin
    return False, None


def limit_current_duty(speed, w0, i0, imax, ilim):
    """larger root D of  current(speed, D) = ilim  for the active branch (D > i0/imax), solved from the motor law:
    (D imax - i0)(1 - s/D) + i0 = ilim  with s = speed/w0  ->  imax D^2 - (imax s + ilim) D + i0 s = 0"""
    s = speed / w0
    a, b, c = imax, -(imax * s + ilim), i0 * s
    disc = b * b - 4 * a * c
    if disc < 0:
        return None
    return (-b + math.sqrt(disc)) / (2 * a)


def current_at(speed, D, tmax, w0, i0, imax):
    return MO.current(speed, D, tmax, w0, i0, imax)
