"""DC motor characteristic of the property statement, as plain SI float functions."""
from __future__ import annotations


def tmax_d(D, Tmax, i0, imax):
    if D > 0:
        return Tmax * (D * imax - i0) / (imax - i0)
    return Tmax * (D * imax + i0) / (imax - i0)


def torque(w, D, Tmax, w0, i0=None, imax=None):
    """driving torque at speed w (rad/s) and duty cycle D"""
    if i0 is None or imax is None:
        return Tmax * (1 - w / w0)
    if abs(D) <= i0 / imax:
        return 0.0
    return tmax_d(D, Tmax, i0, imax) * (1 - w / (D * w0))


def current(w, D, Tmax, w0, i0, imax):
    """absorbed current; (D*imax - i0) * T/Tmax(D) + i0 with T/Tmax(D) = 1 - w/(D*w0)"""
    if abs(D) <= i0 / imax:
        return D * imax
    if D > 0:
        return (D * imax - i0) * (1 - w / (D * w0)) + i0
    return (D * imax + i0) * (1 - w / (D * w0)) - i0


def scale(w, D, w0):
    """amplification of rounding errors by the slope term"""
    if D == 0:
        return 1.0
    return 1.0 + abs(w / (D * w0))
