"""Case language -> real gearpy objects, through the public API only."""
from __future__ import annotations

from vp.oracle import units_si as U


def q(kind, pair):
    return U.cls(kind)(pair[0], pair[1])


def make_element(spec, name=None):
    import gearpy.mechanical_objects as mo
    t = spec['type']
    name = name or spec.get('name') or t
    J = q('InertiaMoment', spec.get('J', [1.0, 'kgm^2']))
    if t == 'motor':
        kw = {}
        if spec.get('i0') is not None:
            kw['no_load_electric_current'] = q('Current', spec['i0'])
        if spec.get('imax') is not None:
            kw['maximum_electric_current'] = q('Current', spec['imax'])
        return mo.DCMotor(name=name, inertia_moment=J, no_load_speed=q('AngularSpeed', spec['w0']),
                          maximum_torque=q('Torque', spec['tmax']), **kw)
    if t == 'flywheel':
        return mo.Flywheel(name=name, inertia_moment=J)
    if t == 'worm':
        kw = {}
        if spec.get('ref_diameter') is not None:
            kw['reference_diameter'] = q('Length', spec['ref_diameter'])
        return mo.WormGear(name=name, n_starts=spec['n_starts'], inertia_moment=J,
                           helix_angle=q('Angle', spec['helix']), pressure_angle=q('Angle', spec['pressure']), **kw)
    kw = {}
    if spec.get('module') is not None:
        kw['module'] = q('Length', spec['module'])
    if spec.get('face_width') is not None:
        kw['face_width'] = q('Length', spec['face_width'])
    if t == 'wheel':
        return mo.WormWheel(name=name, n_teeth=spec['n_teeth'], inertia_moment=J,
                            helix_angle=q('Angle', spec['helix']), pressure_angle=q('Angle', spec['pressure']), **kw)
    if spec.get('E') is not None:
        kw['elastic_modulus'] = q('Stress', spec['E'])
    if t == 'helical':
        return mo.HelicalGear(name=name, n_teeth=spec['n_teeth'], inertia_moment=J,
                              helix_angle=q('Angle', spec['helix']), **kw)
    if t == 'spur':
        return mo.SpurGear(name=name, n_teeth=spec['n_teeth'], inertia_moment=J, **kw)
    raise ValueError(f'unknown element type {t!r}')


REL_ATTRS = ('drives', 'driven_by', 'mating_role', 'master_gear_ratio', 'master_gear_efficiency', 'self_locking')


def relation_state(el):
    """public relation attributes of one element (object references kept as objects)"""
    out = {}
    for a in REL_ATTRS:
        if hasattr(type(el), a):
            out[a] = getattr(el, a)
    return out


def same_state(s1, s2):
    if s1.keys() != s2.keys():
        return False
    for k in s1:
        a, b = s1[k], s2[k]
        if k in ('drives', 'driven_by', 'mating_role'):
            if a is not b:
                return False
        else:
            if type(a) is not type(b) or a != b:
                return False
    return True
